/-
  Model of the LSP backend (src/lsp/backend.rs): document cache, the enabled gate, publication of
  diagnostics, the background fetch task each edit spawns (holding the package list of THAT
  revision), code actions, configuration answers, and the no-cache mode.
  Document text enters the model as the package list the parser extracts from it (the parser models
  are C04/C05; the correspondence feeds the real parser's output).  A handler is atomic up to its
  `tokio::spawn`; a task's steps are: start (filter + claims), one step per registry reply, finish.
-/
import Vlsp.Model.Detect
import Vlsp.Model.Checker
import Vlsp.Model.Cache
import Vlsp.Model.Fetch
import Vlsp.Model.Bump
import Vlsp.Model.Locate
import Vlsp.Model.Npm
import Vlsp.Model.Crates
import Vlsp.Model.Gha
import Vlsp.Model.Go

namespace Vlsp
open Text

structure Diag where
  sev : Checker.Severity
  msg : Text
  line : Nat
  c1 : Nat
  c2 : Nat
  pkg : PkgInfo   -- the package it is about (what `generate_diagnostics` needs to put `c1`, `c2` on the wire: the range
                  -- narrowed to the version text, in UTF-16 units)
deriving Repr, DecidableEq

inductive Msg
  | pub (uri : Text) (ds : List Diag)
  | show (kind : String) (msg : Text)
deriving Repr, DecidableEq

structure Task where
  uri : Option Text            -- none: the start-up background refresh (never publishes)
  reg : Text
  pkgs : List PkgInfo          -- the revision this task was spawned for
  waiting : List Text          -- packages claimed by this task, waiting for the registry
  fetched : List Text
deriving Repr

structure Config where
  disabled : List Text := []   -- registry names (as_str) whose `enabled` is false
  ignorePrerelease : Bool := true
  refreshInterval : Int := Generated.defaultRefreshIntervalMs
deriving Repr, DecidableEq

structure Srv where
  store : Bool := true
  cfg : Config := {}
  ccfg : CacheCfg := ⟨Generated.defaultRefreshIntervalMs, true⟩   -- what the Cache was constructed with
  db : Db := {}
  now : Int := 0
  docs : List (Text × List PkgInfo) := []
  texts : List (Text × Text) := []    -- the text each open document was last parsed from (used by code actions only)
  tasks : List Task := []
  faults : List (Text × Char) := []   -- read operations that fail: (package name or "*", 'L' | 'T' | 'V')
deriving Repr

namespace Server

/-- the matcher of a registry (by its `as_str` name); PyPI is not modelled -/
def matcherOf (reg : String) : Option Matcher :=
  match reg with
  | "npm" | "pnpm_catalog" | "jsr" => some Npm.matcher
  | "crates_io" => some Crates.matcher
  | "github_actions" => some Gha.matcher
  | "go_proxy" => some Go.matcher
  | _ => none

/-- does read `site` on package `name` fail (a store that "starts failing after start-up")? -/
def failing (s : Srv) (name : Text) (site : Char) : Bool :=
  s.faults.contains (name, site) || s.faults.contains (['*'], site)

def readsOf (s : Srv) (k : Key) : Reads :=
  ⟨if failing s k.name 'L' then none else some (Cache.getLatestVersion s.ccfg s.db k),
   fun t => if failing s k.name 'T' then none else some (Cache.getDistTag s.db k t),
   if failing s k.name 'V' then none else some (Cache.getVersions s.db k)⟩

/-- `generate_diagnostics` for an already parsed package list -/
def diagnose (s : Srv) (reg : String) (pkgs : List PkgInfo) : List Diag :=
  match matcherOf reg with
  | none => []
  | some m =>
    pkgs.filterMap fun p =>
      (Checker.diagFor m (readsOf s ⟨reg.toList, p.name⟩) p.version).map fun (sev, msg) =>
        ⟨sev, msg, p.line, p.column, p.column + p.endOffset - p.startOffset, p⟩

def setDoc (docs : List (Text × List PkgInfo)) (uri : Text) (pkgs : List PkgInfo) : List (Text × List PkgInfo) :=
  (uri, pkgs) :: docs.filter (·.1 != uri)

/-- claims of a starting task: every package of `names`, in order -/
def claimAll (db : Db) (reg : Text) (now : Int) : List Text → Db × List Text
  | [] => (db, [])
  | n :: rest =>
    let (db1, ok) := Cache.tryStartFetch db ⟨reg, n⟩ now
    let (db2, ws) := claimAll db1 reg now rest
    (db2, if ok then n :: ws else ws)

/-- the spawned task of one edit: `fetch_missing_packages` on THIS revision's packages, up to the point
    where every claimed package waits for its registry -/
def spawnTask (s : Srv) (uri : Text) (reg : String) (pkgs : List PkgInfo) : Srv :=
  let names := pkgs.map (·.name)
  let missing := Cache.filterNotInCache s.db reg.toList names
  let todo := names.filter fun n => missing.contains n
  let (db', waiting) := claimAll s.db reg.toList s.now todo
  if waiting.isEmpty then { s with db := db' }      -- nothing is being fetched: the task ends without republishing
  else { s with db := db', tasks := s.tasks ++ [⟨some uri, reg.toList, pkgs, waiting, []⟩] }

/-- `check_and_publish_diagnostics` -/
def checkAndPublish (s : Srv) (uri : Text) (pkgs : List PkgInfo) : Srv × List Msg :=
  match Detect.detect uri with
  | none => (s, [])
  | some reg =>
    if s.cfg.disabled.contains reg.toList then (s, [])
    else if !s.store then (s, [.show "warning" "Cache not available, version checking disabled".toList])
    else
      let out := [Msg.pub uri (diagnose s reg pkgs)]
      if pkgs.isEmpty then (s, out) else (spawnTask s uri reg pkgs, out)

/-- `cache_document` (always inserts; an unsupported document caches no packages); the text is kept next to the
    packages (a parameter that matters to code actions only: diagnostics are computed from the packages) -/
def cacheDocument (s : Srv) (uri : Text) (pkgs : List PkgInfo) (content : Text := []) : Srv :=
  { s with docs := setDoc s.docs uri (if (Detect.detect uri).isSome then pkgs else []),
           texts := (uri, content) :: s.texts.filter (·.1 != uri) }

/-- didOpen / didChange with the packages the parser extracts from the new text -/
def edit (s : Srv) (uri : Text) (pkgs : List PkgInfo) (content : Text := []) : Srv × List Msg :=
  checkAndPublish (cacheDocument s uri pkgs content) uri pkgs

def removeFirst (n : Text) : List Text → List Text
  | [] => []
  | x :: xs => if x == n then xs else x :: removeFirst n xs

/-- what `fetch_and_cache_package` does with the registry's answer, and the release of the claim -/
def applyOutcome (db : Db) (k : Key) (now : Int) (o : Fetch.Outcome) : Db × Bool :=
  let (db1, ok) : Db × Bool :=
    match o with
    | .ok vs tags =>
      let d := Cache.replaceVersions db k vs now
      (if tags.isEmpty then d else Cache.saveDistTags d k tags now, true)
    | .notFound => (Cache.markNotFound db k now, false)
    | _ => (db, false)
  (Cache.finishFetch db1 k, ok)

/-- the open documents a completed task re-checks: its own document (whatever it contains now) and every other
    open document of the same registry that uses a package the task fetched -/
def affected (s : Srv) (t : Task) (uri : Text) : List (Text × List PkgInfo) :=
  s.docs.filter fun d =>
    d.1 == uri || ((Detect.detect d.1).map String.toList == some t.reg && d.2.any fun p => t.fetched.contains p.name)

/-- a task whose last fetch has completed: iff it fetched something, it republishes — for every affected open
    document — the diagnosis of the text that document has NOW -/
def finishTask (s : Srv) (i : Nat) (t : Task) : Srv × List Msg :=
  let s2 := { s with tasks := s.tasks.eraseIdx i }
  match t.uri with
  | some uri =>
    if t.fetched.isEmpty then (s2, [])
    else (s2, (affected s2 t uri).map fun d => .pub d.1 (diagnose s2 (String.ofList t.reg) d.2))
  | none => (s2, [])

/-- task `t` holds the claim of (reg, name) and waits for the registry -/
def holds (reg name : Text) (t : Task) : Bool := t.reg == reg && t.waiting.contains name

/-- a registry reply for `name` of registry `reg` reaches the task that holds its claim -/
def reply (s : Srv) (reg name : Text) (o : Fetch.Outcome) : Srv × List Msg :=
  match s.tasks.findIdx? (holds reg name) with
  | none => (s, [])
  | some i =>
    match s.tasks[i]? with
    | none => (s, [])
    | some t =>
      let r := applyOutcome s.db ⟨reg, name⟩ s.now o
      let t' : Task := { t with waiting := removeFirst name t.waiting, fetched := if r.2 then t.fetched ++ [name] else t.fetched }
      let s1 := { s with db := r.1 }
      if t'.waiting.isEmpty then finishTask s1 i t'
      else ({ s1 with tasks := s.tasks.set i t' }, [])

def close (s : Srv) (uri : Text) : Srv :=
  { s with docs := s.docs.filter (·.1 != uri), texts := s.texts.filter (·.1 != uri) }

def textOf0 (texts : List (Text × Text)) (uri : Text) : Text := ((texts.find? (·.1 == uri)).map (·.2)).getD []

/-- a diagnostic as it goes on the wire: `generate_diagnostics` narrows the range to the version text inside the token
    (`version_text_range`; the token itself when the version text does not occur in it) and replaces the byte columns by
    UTF-16 columns computed from the text it was given (when the offsets fit that text) -/
def wireDiag (content : Text) (d : Diag) : Diag :=
  let q := (Bump.locateBytes content d.pkg).getD d.pkg
  match Pos.utf16Span content q.column q.startOffset q.endOffset with
  | some (c, w) => { d with c1 := c, c2 := c + w }
  | none => d

/-- a message as it goes on the wire; every publication is computed from the text the server holds for that document -/
def wire (s : Srv) : Msg → Msg
  | .pub uri ds =>
    -- packages whose value is written over several lines are not checked at all (`is_on_one_line`)
    .pub uri ((ds.filter fun d => Pos.onOneLine (textOf0 s.texts uri) d.pkg.column d.pkg.startOffset d.pkg.endOffset).map
      (wireDiag (textOf0 s.texts uri)))
  | m => m

def textOf (s : Srv) (uri : Text) : Text := ((s.texts.find? (·.1 == uri)).map (·.2)).getD []

/-- `code_action` (without the hash-pinned branch, which is C17) -/
def codeAction (s : Srv) (uri : Text) (line ch : Nat) : Option (List Action) :=
  match Detect.detect uri with
  | none => none
  | some reg =>
    if s.cfg.disabled.contains reg.toList then none
    else if !s.store then none
    else
      match s.docs.find? (·.1 == uri) with
      | none => none
      | some (_, pkgs0) =>
        -- every package is pointed at its version text first (`locate_version_in_token`)
        let pkgs := Bump.locateAll (textOf s uri) pkgs0
        if pkgs.isEmpty then none
        else match Bump.findAtPosition pkgs line ch with
          | none => none
          | some p =>
            let acts := Bump.bumpActions (readsOf s ⟨reg.toList, p.name⟩).versions p
            if acts.isEmpty then none else some acts

/-- the packages of one registry the start-up refresh asks for: stale by the cache's CURRENT refresh interval -/
def refreshDue (s : Srv) (reg : Text) : List Text :=
  ((Cache.needingRefresh s.ccfg s.db s.now).filter (·.reg == reg)).map (·.name)

/-- the start-up background refresh for one registry: stale, unmarked packages are claimed and requested -/
def startRefresh (s : Srv) (reg : Text) : Srv :=
  if !s.store then s
  else
    let due := refreshDue s reg
    let (db', waiting) := claimAll s.db reg s.now due
    if waiting.isEmpty then { s with db := db' }
    else { s with db := db', tasks := s.tasks ++ [⟨none, reg, [], waiting, []⟩] }

end Server
end Vlsp
