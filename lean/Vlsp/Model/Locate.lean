/-
  Model of `locate_version_in_token` (src/lsp/code_action.rs): before the cursor test and the edit, every cached
  package is pointed at the version text inside its value token (npm aliases, JSR specifiers); a package whose
  version text does not occur in its token gets no code action.
-/
import Vlsp.Model.Bump
import Vlsp.Model.Slice
import Vlsp.Model.Pos

namespace Vlsp
open Text Slice

namespace Bump

/-- the text a package's range should hold: the hash of a hash-pinned action, else the version -/
def rangeText (p : PkgInfo) : Text := match p.commitHash with | some h => h | none => p.version

/-- `version_text_range`: the range narrowed to that text inside the token (byte offsets and byte column) -/
def locateBytes (content : Text) (p : PkgInfo) : Option PkgInfo :=
  if !Pos.onOneLine content p.column p.startOffset p.endOffset then none    -- a value written over several lines
  else
  match slice content p.startOffset p.endOffset with
  | none => none                              -- `content.get(a..b)`: out of range or inside a character
  | some token =>
    match rfind? (rangeText p) token with
    | none => none
    | some k =>
      some { p with startOffset := p.startOffset + k, column := p.column + k, endOffset := p.startOffset + k + byteLen (rangeText p) }

/-- a hash with a version comment is rewritten from the hash to the end of the comment: only blanks and the comment
    marker may lie in between -/
def commentGapOk (content : Text) (q : PkgInfo) : Bool :=
  match q.extra with
  | none => true
  | some (_, cs, _) =>
    match slice content q.endOffset cs with
    | none => false
    | some between => between.all fun c => c == ' ' || c == '\t' || c == '#'

/-- the column in the client's units (UTF-16), when the offsets fit the document -/
def toClientColumn (content : Text) (q : PkgInfo) : PkgInfo :=
  match Pos.utf16Span content q.column q.startOffset q.endOffset with
  | some (c, _) => { q with column := c }
  | none => q

/-- `locate_version_in_token` -/
def locate (content : Text) (p : PkgInfo) : Option PkgInfo :=
  match locateBytes content p with
  | none => none
  | some q => if commentGapOk content q then some (toClientColumn content q) else none

/-- the packages the code-action handler works with -/
def locateAll (content : Text) (pkgs : List PkgInfo) : List PkgInfo := pkgs.filterMap (locate content)

end Bump
end Vlsp
