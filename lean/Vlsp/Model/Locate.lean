/-
  Model of `locate_version_in_token` (src/lsp/code_action.rs): before the cursor test and the edit, every cached
  package is pointed at the version text inside its value token (npm aliases, JSR specifiers); a package whose
  version text does not occur in its token gets no code action.
-/
import Vlsp.Model.Bump
import Vlsp.Model.Slice
import Vlsp.Model.Pos

namespace Vlsp
open Text Slice

namespace Bump

/-- the first step: the version text inside the token (byte offsets and byte column) -/
def locateBytes (content : Text) (p : PkgInfo) : Option PkgInfo :=
  if p.commitHash.isSome then some p          -- hash-pinned actions are rewritten as a whole
  else
    match slice content p.startOffset p.endOffset with
    | none => none                              -- `content.get(a..b)`: out of range or inside a character
    | some token =>
      match rfind? p.version token with
      | none => none
      | some k => some { p with startOffset := p.startOffset + k, column := p.column + k }

/-- the second step: the column in the client's units (UTF-16), when the offsets fit the document -/
def toClientColumn (content : Text) (q : PkgInfo) : PkgInfo :=
  match Pos.utf16Span content q.column q.startOffset q.endOffset with
  | some (c, _) => { q with column := c }
  | none => q

def locate (content : Text) (p : PkgInfo) : Option PkgInfo := (locateBytes content p).map (toClientColumn content)

/-- the packages the code-action handler works with -/
def locateAll (content : Text) (pkgs : List PkgInfo) : List PkgInfo := pkgs.filterMap (locate content)

end Bump
end Vlsp
