/-
  Model of `locate_version_in_token` (src/lsp/code_action.rs): before the cursor test and the edit, every cached
  package is pointed at the version text inside its value token (npm aliases, JSR specifiers); a package whose
  version text does not occur in its token gets no code action.
-/
import Vlsp.Model.Bump
import Vlsp.Model.Slice

namespace Vlsp
open Text Slice

namespace Bump

def locate (content : Text) (p : PkgInfo) : Option PkgInfo :=
  if p.commitHash.isSome then some p          -- hash-pinned actions are rewritten as a whole
  else
    match slice content p.startOffset p.endOffset with
    | none => none                              -- `content.get(a..b)`: out of range or inside a character
    | some token =>
      match rfind? p.version token with
      | none => none
      | some k => some { p with startOffset := p.startOffset + k, column := p.column + k }

/-- the packages the code-action handler works with -/
def locateAll (content : Text) (pkgs : List PkgInfo) : List PkgInfo := pkgs.filterMap (locate content)

end Bump
end Vlsp
