/-
  Model of the "what is latest" decision of `Cache::get_latest_version`
  (src/version/cache.rs:276-322), as a function of what the two reads return:
  the `latest` dist-tag row (if the query yields one) and the version rows.
-/
import Vlsp.Model.Semver

namespace Vlsp
open Text Semver

namespace Latest

/-- the `filter_map` closure: lenient parse, drop prereleases when they are ignored -/
def keepParsed (ignorePre : Bool) (v : Text) : Option (Text × Version) :=
  match parseVersion v with
  | none => none
  | some p => if ignorePre && !p.pre.isEmpty then none else some (v, p)

def cmpSnd : (Text × Version) → (Text × Version) → Ordering := cmpVia Prod.snd cmp

/-- `get_latest_version` -/
def getLatest (ignorePre : Bool) (tagLatest : Option Text) (versions : List Text) : Option Text :=
  match tagLatest with
  | some t => some t
  | none =>
    if versions.isEmpty then none
    else (lastMaxBy cmpSnd (versions.filterMap (keepParsed ignorePre))).map Prod.fst

end Latest
end Vlsp
