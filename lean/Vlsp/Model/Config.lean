/-
  Model of the configuration handling (src/config.rs `LspConfig` as serde derives it, and
  `spawn_fetch_configuration` in src/lsp/backend.rs).  Key names, renames and defaults come from
  `Generated` (regenerated from the source).
-/
import Vlsp.Model.Json
import Vlsp.Model.Server

namespace Vlsp
open Text Json

namespace ConfigM

def i64Min : Int := -9223372036854775808
def i64Max : Int := 9223372036854775807

/-- a JSON number as `i64`: integer literal (no fraction/exponent) within range -/
def asI64 (raw : Text) : Option Int :=
  let (neg, ds) : Bool × Text := match raw with | '-' :: r => (true, r) | r => (false, r)
  if ds.isEmpty || !(ds.all isAsciiDigit) then none
  else
    let v : Int := (digitsVal ds 0 : Nat)
    let v := if neg then -v else v
    if i64Min ≤ v && v ≤ i64Max then some v else none

/-- fields of a struct given as a JSON object or (positionally) as an array; `none` = serde error.
    Result: for each field name, the value given (if any). -/
def structFields (names : List String) (j : Json) : Option (List (String × Json)) :=
  match j with
  | .obj kvs =>
    if dupField kvs names then none
    else some (names.filterMap fun n => (get? kvs n).map fun v => (n, v))
  | .arr items => if items.length > names.length then none else some (names.zip items)
  | _ => none

def field? (fs : List (String × Json)) (n : String) : Option Json := (fs.find? (·.1 == n)).map (·.2)

def parseRegistry (j : Json) : Option Bool :=      -- RegistryConfig → enabled
  match structFields Generated.configRegistryField j with
  | none => none
  | some fs =>
    match field? fs "enabled" with
    | none => some Generated.configDefaultEnabled
    | some (.bool b) => some b
    | some _ => none

/-- RegistriesConfig → list of disabled registries (by `as_str` name) -/
def parseRegistries (j : Json) : Option (List Text) :=
  match structFields (Generated.configRegistryKeys.map (·.1)) j with
  | none => none
  | some fs =>
    Generated.configRegistryKeys.foldr (fun (key, reg) acc =>
      match acc with
      | none => none
      | some l =>
        match field? fs key with
        | none => some (if Generated.configDefaultEnabled then l else reg.toList :: l)
        | some v =>
          match parseRegistry v with
          | none => none
          | some true => some l
          | some false => some (reg.toList :: l)) (some [])

def parseCache (j : Json) : Option Int :=
  match structFields Generated.configCacheKeys j with
  | none => none
  | some fs =>
    match field? fs "refreshInterval" with
    | none => some Generated.defaultRefreshIntervalMs
    | some (.num raw) => asI64 raw
    | some _ => none

/-- `serde_json::from_value::<LspConfig>` -/
def parseConfig (j : Json) : Option Config :=
  match structFields Generated.configTopKeys j with
  | none => none
  | some fs =>
    let cache : Option Int := match field? fs "cache" with
      | none => some Generated.defaultRefreshIntervalMs
      | some v => parseCache v
    let regs : Option (List Text) := match field? fs "registries" with
      | none => some (if Generated.configDefaultEnabled then [] else Generated.configRegistryKeys.map (·.2.toList))
      | some v => parseRegistries v
    let ip : Option Bool := match field? fs "ignorePrerelease" with
      | none => some Generated.configDefaultIgnorePrerelease
      | some (.bool b) => some b
      | some _ => none
    match cache, regs, ip with
    | some c, some r, some b => some ⟨r, b, c⟩
    | _, _, _ => none

def defaultConfig : Config :=
  ⟨if Generated.configDefaultEnabled then [] else Generated.configRegistryKeys.map (·.2.toList),
   Generated.configDefaultIgnorePrerelease, Generated.defaultRefreshIntervalMs⟩

/-- what the client answered to `workspace/configuration` -/
inductive Answer
  | failed                -- the request failed / is unsupported
  | empty                 -- an empty result array
  | value (j : Json)      -- the first element

/-- an accepted configuration: stored for the per-request gates and handed to the storer
    (`VersionStorer::configure`), which replaces the two parameters the Cache was constructed with -/
def applyConfig (s : Srv) (c : Config) : Srv :=
  { s with cfg := c,
           ccfg := if Generated.configReachesCache then ⟨c.refreshInterval, c.ignorePrerelease⟩ else s.ccfg }

/-- `spawn_fetch_configuration`: the new server state and the messages shown -/
def applyAnswer (s : Srv) (a : Answer) : Srv × List Msg :=
  match a with
  | .failed | .empty => (s, [])
  | .value j =>
    match j with
    | .null => if Generated.configNullIsDefault then (applyConfig s defaultConfig, []) else (s, [.show "error" "Failed to parse configuration".toList])
    | j =>
      match parseConfig j with
      | some c => (applyConfig s c, [])
      | none => (s, [.show "error" "Failed to parse configuration".toList])

/-- `initialized`: the configuration request and the start-up refresh of the given registries; the
    refresh waits for the answer to be applied (`configured.await`) -/
def startUp (s : Srv) (a : Answer) (regs : List Text) : Srv × List Msg :=
  if Generated.refreshWaitsForConfig then
    let r := applyAnswer s a
    (regs.foldl (fun s r => Server.startRefresh s r) r.1, r.2)
  else
    let s1 := regs.foldl (fun s r => Server.startRefresh s r) s
    applyAnswer s1 a

end ConfigM
end Vlsp
