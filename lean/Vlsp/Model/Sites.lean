/-
  Offset-level models of the functions of version-lsp that slice or index text (C06's panic-site inventory).
  Every `&s[a..b]`, `split_at` and `v[i]` of the Rust code is an explicit `Option` here (`none` = the panic),
  with the offsets computed exactly as the code computes them.
-/
import Vlsp.Model.Slice

namespace Vlsp
open Text Slice

namespace Sites

def jsrPrefix : Text := "jsr:".toList
def npmPrefix : Text := "npm:".toList
def requireKw : Text := "require".toList
def latestTag : Text := "latest".toList

/-- the `@scope/name@version` splitting shared by `parse_jsr_specifier` (deno_json.rs) and the scoped
    branch of `parse_npm_alias` (package_json.rs), on the text after the prefix.
    outer `none` = panic; inner `none` = the function returns `None` -/
def scopedSplit (rest : Text) : Option (Option (Text × Text)) :=
  match findChar? (· == '/') rest with
  | none => some none
  | some sp =>
    match sliceFrom rest (sp + 1) with                       -- &rest[slash_pos + 1..]
    | none => none
    | some after =>
      match findChar? (· == '@') after with
      | none => some (some (rest, latestTag))
      | some ap =>
        match sliceTo rest (sp + 1 + ap), sliceFrom after (ap + 1) with   -- &rest[..slash_pos + 1 + at_pos], &after_slash[at_pos + 1..]
        | some name, some ver => some (some (name, ver))
        | _, _ => none

def jsrSpecifier (value : Text) : Option (Option (Text × Text)) :=
  match stripPrefix jsrPrefix value with
  | none => some none
  | some rest =>
    -- `version.split('/').next()`: a sub-path after the version is not part of it
    (scopedSplit rest).map fun r => r.map fun (n, v) => (n, v.takeWhile (· != '/'))

def npmAlias (value : Text) : Option (Option (Text × Text)) :=
  match stripPrefix npmPrefix value with
  | none => some none
  | some rest =>
    if startsWith rest ['@'] then scopedSplit rest
    else
      match findChar? (· == '@') rest with
      | none => some (some (rest, latestTag))
      | some ap =>
        match sliceTo rest ap, sliceFrom rest (ap + 1) with            -- &rest[..at_pos], &rest[at_pos + 1..]
        | some name, some ver => some (some (name, ver))
        | _, _ => none

/-- the first part of `parse_uses_value` (github_actions.rs): `find('@')`, `split_at`, `[1..]`, `parts[0]`, `parts[1]` -/
def usesSplit (value : Text) : Option (Option (Text × Text × Text)) :=
  match findChar? (· == '@') value with
  | none => some none
  | some ap =>
    match sliceTo value ap, sliceFrom value ap with                     -- value.split_at(at_pos)
    | some repoPart, some ver0 =>
      match sliceFrom ver0 1 with                                        -- &version[1..]
      | none => none
      | some ver =>
        let parts := splitChar '/' repoPart
        if parts.length < 2 then some none
        else
          match parts[0]?, parts[1]? with                                -- parts[0], parts[1]
          | some o, some r => some (some (o, r, ver))
          | _, _ => none
    | _, _ => none

/-- `content[..start_offset].rfind('\n').map_or(0, |p| p + 1)` -/
def lineStart (before : Text) : Nat :=
  match rfindChar? (· == '\n') before with | some p => p + 1 | none => 0

/-- `content[start_offset..].find('\n').map_or(content.len(), |p| start_offset + p)` -/
def lineEnd (after : Text) (start total : Nat) : Nat :=
  match findChar? (· == '\n') after with | some p => start + p | none => total

/-- the comment lookup of `parse_uses_value` for a hash-pinned action whose value node starts at byte `start`:
    the text after the first `#` of the node's line, and the offset of that `#` -/
def hashComment (content : Text) (start : Nat) : Option (Option (Text × Nat)) :=
  match sliceTo content start, sliceFrom content start with             -- content[..start_offset], content[start_offset..]
  | some before, some after =>
    let ls := lineStart before
    let le := lineEnd after start (byteLen content)
    match slice content ls le with                                       -- &content[line_start..line_end]
    | none => none
    | some line =>
      match findChar? (· == '#') line with
      | none => some none
      | some h =>
        match sliceFrom line (h + 1) with                                -- &line_text[hash_pos_in_line + 1..]
        | none => none
        | some c => some (some (c, ls + h))
  | _, _ => none

/-- `is_pseudo_version` (matchers/go.rs): the `&timestamp[2..]` behind `starts_with("0.") && len == 16` -/
def pseudoTail (ts : Text) : Option (Option Text) :=
  if startsWith ts "0.".toList && byteLen ts == 16 then (sliceFrom ts 2).map some else some none

/-- go_mod.rs: `line[require_pos..]` with `require_pos = line.find("require").unwrap_or(0)` -/
def requireTail (line : Text) : Option Text :=
  sliceFrom line ((find? requireKw line).getD 0)

/-- every byte offset at which `pat` occurs (a superset of Rust's non-overlapping `match_indices`) -/
def occurrences (pat : Text) : Text → Nat → List Nat
  | [], off => if pat.isEmpty then [off] else []
  | c :: cs, off =>
    (if startsWith (c :: cs) pat then [off] else []) ++ occurrences pat cs (off + utf8Len c)

/-- `str::char_indices` -/
def charIndices : Text → Nat → List (Nat × Char)
  | [], _ => []
  | c :: cs, off => (off, c) :: charIndices cs (off + utf8Len c)

/-- `i + 2 < chars.len() && chars[i + 1].1 == '-' && chars[i + 2].1 == ' '` -/
def hyphenAhead (chars : List (Nat × Char)) (i : Nat) : Bool :=
  match chars[i + 1]?, chars[i + 2]? with
  | some (_, c1), some (_, c2) => c1 == '-' && c2 == ' '
  | _, _ => false

/-- `before.ends_with(['<', '>', '=', '^', '~'])` -/
def endsWithOp (t : Text) : Bool :=
  match t.getLast? with
  | some c => c == '<' || c == '>' || c == '=' || c == '^' || c == '~'
  | none => false

/-- `VersionSpec::split_and_parts` (matchers/npm.rs) at the level of byte offsets: `i` indexes `chars`,
    `cs` is `current_start`.  Fuel = number of loop iterations left. -/
def splitLoop (spec : Text) (chars : List (Nat × Char)) : (fuel i cs : Nat) → (acc : List Text) → Option (List Text)
  | 0, _, _, _ => none
  | fuel + 1, i, cs, acc =>
    match chars[i]? with
    | none =>
      match sliceFrom spec cs with                                       -- spec[current_start..]
      | none => none
      | some l => let last := trim l; some (if last.isEmpty then acc else acc ++ [last])
    | some (pos, ch) =>
      if ch == ' ' then
        match slice spec cs pos with                                     -- &spec[current_start..pos]
        | none => none
        | some b =>
          let before := trim b
          -- an operator separated from its version (">= 1.0.0"): the space belongs to the part
          if endsWithOp before then splitLoop spec chars fuel (i + 1) cs acc
          else if !before.isEmpty then
            if hyphenAhead chars i then splitLoop spec chars fuel (i + 3) cs acc
            else splitLoop spec chars fuel (i + 1) (pos + 1) (acc ++ [before])
          else splitLoop spec chars fuel (i + 1) cs acc
      else splitLoop spec chars fuel (i + 1) cs acc

def splitAndPartsBytes (spec : Text) : Option (List Text) :=
  splitLoop spec (charIndices spec 0) (spec.length + 2) 0 0 []

end Sites
end Vlsp
