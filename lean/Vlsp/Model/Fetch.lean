/-
  Model of src/lsp/refresh.rs: `fetch_and_cache_package`, `fetch_missing_packages`,
  `refresh_packages`, over the cache model, with a fault oracle for every cache call
  (a failing call has no effect: C11) and a registry outcome per package.
-/
import Vlsp.Model.Cache

namespace Vlsp
open Text Db

namespace Fetch

/-- what the registry adapter returns for one package -/
inductive Outcome
  | ok (versions : List Text) (tags : List (Text × Text))
  | notFound | rateLimited | network | invalid
deriving Repr, DecidableEq

/-- which cache calls of this package's fetch fail -/
structure Faults where
  claim : Bool := false
  replace : Bool := false
  saveTags : Bool := false
  mark : Bool := false
  finish : Bool := false
deriving Repr, DecidableEq

structure Result where
  db : Db
  success : Bool            -- return value of fetch_and_cache_package
  called : Bool             -- the registry was asked
deriving Repr

/-- `fetch_and_cache_package` -/
def fetchAndCache (db : Db) (k : Key) (now : Int) (o : Outcome) (f : Faults) : Result :=
  -- try_start_fetch … .unwrap_or(false)
  let (db1, can) : Db × Bool := if f.claim then (db, false) else Cache.tryStartFetch db k now
  if !can then ⟨db1, false, false⟩
  else
    let (db2, success) : Db × Bool :=
      match o with
      | .ok vs tags =>
        if f.replace then (db1, false)
        else
          let d := Cache.replaceVersions db1 k vs now
          let d := if !tags.isEmpty && !f.saveTags then Cache.saveDistTags d k tags now else d
          (d, true)
      | .notFound => (if f.mark then db1 else Cache.markNotFound db1 k now, false)
      | _ => (db1, false)
    -- finish_fetch, always
    let db3 := if f.finish then db2 else Cache.finishFetch db2 k
    ⟨db3, success, true⟩

structure Job where
  name : Text
  outcome : Outcome
  faults : Faults := {}
deriving Repr

structure BatchResult where
  db : Db
  fetched : List Text       -- names reported as fetched
  requested : List Text     -- registry call log
deriving Repr

/-- the per-package loop of both entry points (staggered starts; with an instantaneous
    registry the packages run one after the other) -/
def runJobs (db : Db) (reg : Text) (now : Int) : List Job → BatchResult
  | [] => ⟨db, [], []⟩
  | j :: rest =>
    let r := fetchAndCache db ⟨reg, j.name⟩ now j.outcome j.faults
    let br := runJobs r.db reg now rest
    ⟨br.db, (if r.success then [j.name] else []) ++ br.fetched, (if r.called then [j.name] else []) ++ br.requested⟩

/-- `fetch_missing_packages`: only the packages the filter reports missing are fetched
    (every occurrence of a missing name, in manifest order); a failing filter fetches nothing -/
def fetchMissing (db : Db) (reg : Text) (now : Int) (jobs : List Job) (filterFails : Bool) : BatchResult :=
  if jobs.isEmpty then ⟨db, [], []⟩
  else
    let missing : List Text := if filterFails then [] else Cache.filterNotInCache db reg (jobs.map (·.name))
    runJobs db reg now (jobs.filter fun j => missing.contains j.name)

end Fetch
end Vlsp
