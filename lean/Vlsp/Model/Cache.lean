/-
  Model of the public operations of `Cache` (src/version/cache.rs) as the exact
  statement sequences of the code over the relational model `Db`.
  The clock value is an argument (virtual clock hook).
-/
import Vlsp.Model.Db
import Vlsp.Model.Latest

namespace Vlsp
open Text

structure CacheCfg where
  refreshInterval : Int
  ignorePrerelease : Bool
deriving Repr, Inhabited, DecidableEq

namespace Cache
open Db

/-- `replace_versions` (one transaction): upsert+touch, select id, insert-or-ignore each version -/
def replaceVersions (db : Db) (k : Key) (vs : List Text) (now : Int) : Db :=
  let db1 := db.stmtUpsertTouch k now
  match db1.selectId k with
  | none => db            -- unreachable: the row was just upserted (query_row would fail → rollback)
  | some pid => vs.foldl (fun d v => d.stmtInsertVersionIgnore pid v) db1

/-- `save_dist_tags` (one transaction); an empty map is a no-op.  `tags` has distinct
    keys (it is a `HashMap` in the code). -/
def saveDistTags (db : Db) (k : Key) (tags : List (Text × Text)) (now : Int) : Db :=
  if tags.isEmpty then db
  else
    let db1 := db.stmtInsertPkgIgnore k now
    match db1.selectId k with
    | none => db
    | some pid =>
      let db2 := db1.stmtDeleteTags pid
      tags.foldl (fun d tv => d.stmtInsertTag pid tv.1 tv.2) db2

/-- `try_start_fetch`: conditional UPDATE, then INSERT OR IGNORE when no row was changed -/
def tryStartFetch (db : Db) (k : Key) (now : Int) : Db × Bool :=
  let (db1, n) := db.stmtClaimUpdate k now (now - Generated.fetchTimeoutMs)
  if n > 0 then (db1, true)
  else
    let (db2, m) := db1.stmtClaimInsert k now
    (db2, m > 0)

def finishFetch (db : Db) (k : Key) : Db := db.stmtFinish k
def markNotFound (db : Db) (k : Key) (now : Int) : Db := db.stmtMark k now

def getVersions (db : Db) (k : Key) : List Text := db.versionsOf k
def getDistTag (db : Db) (k : Key) (t : Text) : Option Text := db.tagOf k t

/-- `get_latest_version` -/
def getLatestVersion (cfg : CacheCfg) (db : Db) (k : Key) : Option Text :=
  Latest.getLatest cfg.ignorePrerelease (db.tagOf k "latest".toList) (db.versionsOf k)

/-- `version_exists` -/
def versionExists (db : Db) (k : Key) (v : Text) : Bool := (db.versionsOf k).contains v

def knownRegistry (reg : Text) : Bool :=
  Generated.registryFromStr.any fun (s, _) => s.toList == reg

/-- `get_packages_needing_refresh`: stale and not marked; rows whose registry string
    does not parse are dropped -/
def needingRefresh (cfg : CacheCfg) (db : Db) (now : Int) : List Key :=
  (db.pkgs.filter fun p => p.updatedAt < now - cfg.refreshInterval && !p.notFound && knownRegistry p.key.reg).map (·.key)

def isCached (db : Db) (k : Key) : Bool :=
  match db.findPkg k with
  | none => false
  | some p => (db.vers.any fun r => r.1 == p.id) || p.notFound

/-- `filter_packages_not_in_cache` (order of the input preserved) -/
def filterNotInCache (db : Db) (reg : Text) (names : List Text) : List Text :=
  names.filter fun n => !isCached db ⟨reg, n⟩

end Cache
end Vlsp
