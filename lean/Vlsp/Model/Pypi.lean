/-
  Model of src/version/matchers/pypi.rs.  The PEP 440 engine (pep440_rs: parsing of versions and specifier sets,
  `contains`, the version order) is a PARAMETER: the model is what version-lsp itself does around it.
-/
import Vlsp.Model.Matcher

namespace Vlsp
open Text

/-- the four PEP 440 facts the matcher asks the library for -/
structure Pep440 where
  specOk : Text → Bool                 -- `VersionSpecifiers::from_str` succeeds
  verOk : Text → Bool                  -- `Version::from_str` succeeds
  contains : Text → Text → Bool        -- `specifiers.contains(&version)` (both parse)
  le : Text → Text → Bool              -- `a <= b` on parsed versions

namespace Pypi

def ops : List Text := [">=".toList, "<=".toList, "==".toList, "!=".toList, "~=".toList, ">".toList, "<".toList]

/-- text before the first comma (`split(',').next()`) -/
def firstClause (t : Text) : Text := t.takeWhile (· != ',')

/-- `extract_base_version` -/
def extractBase (spec0 : Text) : Text :=
  let spec := trim spec0
  match ops.findSome? fun op => stripPrefix op spec with
  | some rest => trim (firstClause rest)
  | none => trim (firstClause spec)

def versionExists (P : Pep440) (spec : Text) (available : List Text) : Bool :=
  if spec.isEmpty then !available.isEmpty
  else if !P.specOk spec then false
  else available.any fun v => P.verOk v && P.contains spec v

def compareToLatest (P : Pep440) (current latest : Text) : CompareResult :=
  if current.isEmpty then .latest
  else if !P.verOk latest then .invalid
  else if !P.specOk current then .invalid
  else if P.contains current latest then .latest
  else
    let base := extractBase (trim current)
    if P.verOk base then (if P.le base latest then .outdated else .newer) else .outdated

def matcher (P : Pep440) : Matcher := ⟨versionExists P, compareToLatest P⟩

end Pypi
end Vlsp
