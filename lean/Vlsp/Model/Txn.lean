/-
  Statement-level programs of the cache's write operations, with transaction
  brackets, and what a crash (process kill) or a database error at any statement
  boundary leaves behind.  Whether an operation is bracketed by a transaction is
  taken from `Generated.transactionalFns` (regenerated from cache.rs: the function
  contains `conn.transaction()` … `tx.commit()`).
-/
import Vlsp.Model.Cache

namespace Vlsp
open Text Db

namespace Txn

inductive Stmt
  | upsertTouch (k : Key) (now : Int)
  | insertPkgIgnore (k : Key) (now : Int)
  | insertVersion (k : Key) (v : Text)          -- looks the id up (`SELECT id …` earlier in the same transaction)
  | deleteTags (k : Key)
  | insertTag (k : Key) (t v : Text)
  | claimUpdate (k : Key) (now : Int)
  | claimInsertIfNoRow (k : Key) (now : Int)    -- only issued when the UPDATE changed no row
  | finish (k : Key)
  | mark (k : Key) (now : Int)
deriving Repr

def Stmt.exec (db : Db) : Stmt → Db
  | .upsertTouch k now => db.stmtUpsertTouch k now
  | .insertPkgIgnore k now => db.stmtInsertPkgIgnore k now
  | .insertVersion k v => match db.selectId k with | some pid => db.stmtInsertVersionIgnore pid v | none => db
  | .deleteTags k => match db.selectId k with | some pid => db.stmtDeleteTags pid | none => db
  | .insertTag k t v => match db.selectId k with | some pid => db.stmtInsertTag pid t v | none => db
  | .claimUpdate k now => (db.stmtClaimUpdate k now (now - Generated.fetchTimeoutMs)).1
  | .claimInsertIfNoRow k now => (db.stmtClaimInsert k now).1
  | .finish k => db.stmtFinish k
  | .mark k now => db.stmtMark k now

structure Prog where
  fn : String           -- the Rust function, for the transaction lookup
  stmts : List Stmt

def Prog.tx (p : Prog) : Bool := Generated.transactionalFns.contains p.fn

def replaceProg (k : Key) (vs : List Text) (now : Int) : Prog :=
  ⟨"replace_versions", .upsertTouch k now :: vs.map (.insertVersion k)⟩

def tagsProg (k : Key) (tags : List (Text × Text)) (now : Int) : Prog :=
  ⟨"save_dist_tags", if tags.isEmpty then [] else
    .insertPkgIgnore k now :: .deleteTags k :: tags.map fun tv => .insertTag k tv.1 tv.2⟩

def runStmts (db : Db) (ss : List Stmt) : Db := ss.foldl Stmt.exec db

def Prog.full (p : Prog) (db : Db) : Db := runStmts db p.stmts

/-- the database found after the process is killed (or the operation fails with a
    database error) when `n` statements of `p` have been executed: inside an
    uncommitted transaction everything vanishes (rollback / WAL recovery); without a
    transaction the executed prefix stays -/
def crashAt (p : Prog) (n : Nat) (db : Db) : Db :=
  if p.tx then (if n ≥ p.stmts.length + 1 then p.full db else db)   -- n = length+1 : the commit happened
  else runStmts db (p.stmts.take n)

end Txn
end Vlsp
