/-
  Byte-offset slicing of UTF-8 text as Rust does it: `&s[a..b]` PANICS unless `a ≤ b ≤ len` and both lie on
  character boundaries.  A slice is modelled as an `Option` (`none` = the panic), so that "this code never
  panics" is a theorem `(f x).isSome` about the model of each function that slices.
-/
import Vlsp.Text

namespace Vlsp
open Text

namespace Slice

/-- `&s[n..]` -/
def sliceFrom : Text → Nat → Option Text
  | t, 0 => some t
  | [], _ + 1 => none
  | c :: cs, n + 1 => if utf8Len c ≤ n + 1 then sliceFrom cs (n + 1 - utf8Len c) else none

/-- `&s[..n]` -/
def sliceTo : Text → Nat → Option Text
  | _, 0 => some []
  | [], _ + 1 => none
  | c :: cs, n + 1 => if utf8Len c ≤ n + 1 then (sliceTo cs (n + 1 - utf8Len c)).map (c :: ·) else none

/-- `&s[a..b]` -/
def slice (t : Text) (a b : Nat) : Option Text :=
  if a ≤ b then (sliceTo t b).bind fun pre => sliceFrom pre a else none

/-- byte offset of the LAST occurrence of `pat` (Rust `str::rfind(&str)`; the empty pattern is found at the end) -/
def rfind? (pat : Text) : Text → Option Nat
  | [] => if pat.isEmpty then some 0 else none
  | c :: cs =>
    match rfind? pat cs with
    | some n => some (n + utf8Len c)
    | none => if startsWith (c :: cs) pat then some 0 else none

/-- byte offset of the LAST character satisfying `p` (Rust `str::rfind(char)`) -/
def rfindChar? (p : Char → Bool) : Text → Option Nat
  | [] => none
  | c :: cs =>
    match rfindChar? p cs with
    | some n => some (n + utf8Len c)
    | none => if p c then some 0 else none

theorem utf8Len_pos (c : Char) : 0 < utf8Len c := by
  unfold utf8Len; repeat' split
  all_goals omega

theorem byteLen_append (a b : Text) : byteLen (a ++ b) = byteLen a + byteLen b := by
  induction a with
  | nil => simp [byteLen]
  | cons c cs ih => simp [byteLen, ih]; omega

/-- a cut between two pieces is a valid `[n..]` -/
theorem sliceFrom_append (pre post : Text) : sliceFrom (pre ++ post) (byteLen pre) = some post := by
  induction pre with
  | nil => cases post <;> simp [sliceFrom, byteLen]
  | cons c cs ih =>
    have hp := utf8Len_pos c
    have : byteLen (c :: cs) = (utf8Len c + byteLen cs - 1) + 1 := by simp [byteLen]; omega
    rw [List.cons_append, this, sliceFrom]
    have h1 : utf8Len c ≤ utf8Len c + byteLen cs - 1 + 1 := by omega
    have h2 : utf8Len c + byteLen cs - 1 + 1 - utf8Len c = byteLen cs := by omega
    simp only [h1, if_true, h2, ih]

/-- a cut between two pieces is a valid `[..n]` -/
theorem sliceTo_append (pre post : Text) : sliceTo (pre ++ post) (byteLen pre) = some pre := by
  induction pre with
  | nil => cases post <;> simp [sliceTo, byteLen]
  | cons c cs ih =>
    have hp := utf8Len_pos c
    have : byteLen (c :: cs) = (utf8Len c + byteLen cs - 1) + 1 := by simp [byteLen]; omega
    rw [List.cons_append, this, sliceTo]
    have h1 : utf8Len c ≤ utf8Len c + byteLen cs - 1 + 1 := by omega
    have h2 : utf8Len c + byteLen cs - 1 + 1 - utf8Len c = byteLen cs := by omega
    simp only [h1, if_true, h2, ih, Option.map_some]

theorem sliceTo_all (t : Text) : sliceTo t (byteLen t) = some t := by
  have := sliceTo_append t []; simpa using this

/-- cuts at two boundaries, in order, give the middle piece -/
theorem slice_append (x y z : Text) : slice (x ++ y ++ z) (byteLen x) (byteLen x + byteLen y) = some y := by
  unfold slice
  have h : byteLen x ≤ byteLen x + byteLen y := by omega
  have h2 : sliceTo (x ++ y ++ z) (byteLen x + byteLen y) = some (x ++ y) := by
    rw [← byteLen_append]; exact sliceTo_append (x ++ y) z
  simp only [h, if_true, h2, Option.bind_some]
  exact sliceFrom_append x y

/-- `find(char)` returns the byte length of the text before the first match -/
theorem findChar_split (p : Char → Bool) (t : Text) (n : Nat) (h : findChar? p t = some n) :
    ∃ pre c post, t = pre ++ c :: post ∧ byteLen pre = n ∧ p c = true ∧ ∀ x ∈ pre, p x = false := by
  induction t generalizing n with
  | nil => simp [findChar?] at h
  | cons c cs ih =>
    unfold findChar? at h
    by_cases hc : p c = true
    · simp only [hc, if_true, Option.some.injEq] at h
      exact ⟨[], c, cs, rfl, by simp [byteLen, h], hc, by simp⟩
    · simp only [hc, Bool.false_eq_true, if_false, Option.map_eq_some_iff] at h
      obtain ⟨m, hm, hn⟩ := h
      obtain ⟨pre, d, post, ht, hl, hd, hall⟩ := ih m hm
      refine ⟨c :: pre, d, post, by simp [ht], by simp [byteLen, hl]; omega, hd, ?_⟩
      intro x hx
      rcases List.mem_cons.mp hx with rfl | hx
      · simpa using hc
      · exact hall x hx

theorem rfindChar_split (p : Char → Bool) (t : Text) (n : Nat) (h : rfindChar? p t = some n) :
    ∃ pre c post, t = pre ++ c :: post ∧ byteLen pre = n ∧ p c = true := by
  induction t generalizing n with
  | nil => simp [rfindChar?] at h
  | cons c cs ih =>
    unfold rfindChar? at h
    cases hr : rfindChar? p cs with
    | some m =>
      simp only [hr, Option.some.injEq] at h
      obtain ⟨pre, d, post, ht, hl, hd⟩ := ih m hr
      exact ⟨c :: pre, d, post, by simp [ht], by simp [byteLen, hl]; omega, hd⟩
    | none =>
      simp only [hr] at h
      by_cases hc : p c = true
      · simp only [hc, if_true, Option.some.injEq] at h
        exact ⟨[], c, cs, rfl, by simp [byteLen, h], hc⟩
      · simp [hc] at h

theorem stripPrefix_eq (pat t r : Text) (h : stripPrefix pat t = some r) : t = pat ++ r := by
  induction pat generalizing t with
  | nil => simp [stripPrefix] at h; simp [h]
  | cons p ps ih =>
    cases t with
    | nil => simp [stripPrefix] at h
    | cons c cs =>
      simp only [stripPrefix] at h
      by_cases hpc : (p == c) = true
      · simp only [hpc, if_true] at h
        have := ih cs h
        have hpc' : p = c := by simpa using hpc
        simp [this, hpc']
      · simp [hpc] at h

/-- `find(&str)` returns the byte length of the text before the first match -/
theorem find_split (pat t : Text) (n : Nat) (h : find? pat t = some n) :
    ∃ pre post, t = pre ++ pat ++ post ∧ byteLen pre = n := by
  induction t generalizing n with
  | nil =>
    unfold find? at h
    cases pat with
    | nil => simp at h; exact ⟨[], [], rfl, by simp [byteLen, h]⟩
    | cons _ _ => simp at h
  | cons c cs ih =>
    unfold find? at h
    by_cases hs : startsWith (c :: cs) pat = true
    · simp only [hs, if_true, Option.some.injEq] at h
      unfold startsWith at hs
      cases hr : stripPrefix pat (c :: cs) with
      | none => simp [hr] at hs
      | some r =>
        have := stripPrefix_eq pat (c :: cs) r hr
        exact ⟨[], r, by simpa using this, by simp [byteLen, h]⟩
    · simp only [hs, Bool.false_eq_true, if_false, Option.map_eq_some_iff] at h
      obtain ⟨m, hm, hn⟩ := h
      obtain ⟨pre, post, ht, hl⟩ := ih m hm
      exact ⟨c :: pre, post, by simp [ht], by simp [byteLen, hl]; omega⟩

/-- an ASCII character occupies one byte -/
theorem utf8Len_ascii (c : Char) (h : c.val < 0x80) : utf8Len c = 1 := by simp [utf8Len, h]

end Slice
end Vlsp
