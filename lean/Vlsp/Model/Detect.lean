/-
  Model of `detect_parser_type` / `is_github_actions_workflow` / `contains_dir`
  (src/parser/types.rs).  The suffix table, the directory patterns and the
  boundary characters come from `Vlsp.Generated` (regenerated from the source
  on every run).
-/
import Vlsp.Text
import Vlsp.Generated

namespace Vlsp
open Text

namespace Detect

def isBoundaryChar (c : Char) : Bool :=
  Generated.ghaDirBoundaryChars.any (fun s => s.toList == [c])

/-- `contains_dir`: some occurrence of `dir` starts at offset 0 or right after a
    boundary character.  (`match_indices` yields non-overlapping matches; the
    extractor checks that no pattern overlaps itself, so "some occurrence" is
    exact.)  `atB` = "the current position is a component start". -/
def occursAtBoundary (dir : Text) : (atB : Bool) → Text → Bool
  | atB, [] => atB && dir.isEmpty
  | atB, c :: cs =>
    (atB && startsWith (c :: cs) dir) || occursAtBoundary dir (isBoundaryChar c) cs

def containsDir (uri dir : Text) : Bool := occursAtBoundary dir true uri

def isGithubActionsWorkflow (uri : Text) : Bool :=
  Generated.ghaDirSubstrings.any (fun s => containsDir uri s.toList) &&
  Generated.ghaYamlSuffixes.any (fun s => endsWith uri s.toList)

/-- first matching suffix in table order -/
def firstSuffix (uri : Text) : List (String × String) → Option String
  | [] => none
  | (suf, reg) :: rest => if endsWith uri suf.toList then some reg else firstSuffix uri rest

/-- `detect_parser_type`: result is the registry's `as_str` name -/
def detect (uri : Text) : Option String :=
  if isGithubActionsWorkflow uri then some Generated.ghaRegistry
  else firstSuffix uri Generated.detectSuffixTable

end Detect
end Vlsp
