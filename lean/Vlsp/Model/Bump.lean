/-
  Model of src/lsp/code_action.rs: `PackageIndex::find_at_position`,
  `extract_version_prefix`, `generate_bump_code_actions`,
  `generate_bump_code_actions_with_sha`, `generate_hash_only_actions`,
  `create_bump_action`, `create_hash_bump_action`.
-/
import Vlsp.Model.Semver
import Vlsp.Model.Latest

namespace Vlsp
open Text Semver

/-- `PackageInfo` (src/parser/types.rs); `extra` = GitHub Actions comment (text, start offset, end offset) -/
structure PkgInfo where
  name : Text
  version : Text
  commitHash : Option Text
  startOffset : Nat
  endOffset : Nat
  line : Nat
  column : Nat
  extra : Option (Text × Nat × Nat)
deriving Repr, DecidableEq, Inhabited

/-- a code action: title and its single TextEdit on one line -/
structure Action where
  title : Text
  line : Nat
  startCol : Nat
  endCol : Nat
  newText : Text
deriving Repr, DecidableEq

namespace Bump

/-- `find_at_position`: the first package on that line whose `[column, column + version.len())` contains the cursor -/
def findAtPosition (pkgs : List PkgInfo) (line ch : Nat) : Option PkgInfo :=
  (pkgs.filter fun p => p.line == line).find? fun p => p.column ≤ ch && ch < p.column + byteLen p.version

/-- `extract_version_prefix` -/
def extractPrefix (v : Text) : Text :=
  if startsWith v "===".toList then "===".toList
  else if startsWith v "==".toList then "==".toList
  else if startsWith v "~=".toList then "~=".toList
  else if startsWith v ">=".toList then ">=".toList
  else if startsWith v "<=".toList then "<=".toList
  else if startsWith v ">".toList then ">".toList
  else if startsWith v "<".toList then "<".toList
  else if startsWith v "=".toList then "=".toList
  else if startsWith v "^".toList then "^".toList
  else if startsWith v "~".toList then "~".toList
  else if startsWith v "v".toList then "v".toList
  else []

/-- the three bump targets with their labels, in the order patch, minor, major -/
def targets (current : Text) (versions : List Text) : List (Option Text × String) :=
  [(calcLatestPatch current versions, "patch"), (calcLatestMinor current versions, "minor"),
   (calcLatestMajor current versions, "major")]

/-- keep the first occurrence of each target (the `seen` set) -/
def dedupTargets : List (Option Text × String) → List Text → List (Text × String)
  | [], _ => []
  | (none, _) :: rest, seen => dedupTargets rest seen
  | (some v, l) :: rest, seen =>
    if seen.contains v then dedupTargets rest seen else (v, l) :: dedupTargets rest (v :: seen)

def titleFor (label : String) (newVersion : Text) : Text :=
  "Bump to latest ".toList ++ label.toList ++ ": ".toList ++ newVersion

/-- `create_bump_action` -/
def bumpAction (title newVersion : Text) (p : PkgInfo) : Action :=
  ⟨title, p.line, p.column, p.column + byteLen p.version, newVersion⟩

/-- `generate_bump_code_actions` (`versions = none`: the cache read failed) -/
def bumpActions (versions : Option (List Text)) (p : PkgInfo) : List Action :=
  match versions with
  | none => []
  | some vs =>
    if vs.isEmpty then []
    else
      let pre := extractPrefix p.version
      (dedupTargets (targets p.version vs) []).map fun (v, label) =>
        let nv := pre ++ v
        bumpAction (titleFor label nv) nv p

/-- `create_hash_bump_action` -/
def hashBumpAction (title newSha newVersion : Text) (p : PkgInfo) : Action :=
  match p.extra with
  | some (_, _, commentEnd) =>
    ⟨title, p.line, p.column, p.column + (commentEnd - p.startOffset), newSha ++ " # ".toList ++ newVersion⟩
  | none =>
    let hashLen := match p.commitHash with | some h => byteLen h | none => 40
    ⟨title, p.line, p.column, p.column + hashLen, newSha⟩

/-- `generate_bump_code_actions_with_sha`; `tagSha repo tag = none` means the lookup failed -/
def bumpActionsWithSha (tagSha : Text → Text → Option Text) (versions : Option (List Text))
    (latest : Option (Option Text)) (p : PkgInfo) : List Action :=
  match versions with
  | none => []
  | some vs =>
    if vs.isEmpty then []
    else if p.commitHash.isSome && p.extra.isNone then
      -- hash only: offer the latest release
      match latest with
      | some (some l) =>
        match tagSha p.name l with
        | some sha => [hashBumpAction ("Bump to latest: ".toList ++ l) sha l p]
        | none => []
      | _ => []
    else
      let pre := extractPrefix p.version
      (dedupTargets (targets p.version vs) []).filterMap fun (v, label) =>
        let nv := pre ++ v
        if p.commitHash.isSome then
          match tagSha p.name nv with
          | some sha => some (hashBumpAction (titleFor label nv) sha nv p)
          | none => none
        else some (bumpAction (titleFor label nv) nv p)

end Bump
end Vlsp
