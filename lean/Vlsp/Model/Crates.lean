/-
  Model of src/version/matchers/crates.rs.
-/
import Vlsp.Model.Matcher

namespace Vlsp
open Text Semver

namespace Crates

inductive Req
  | caret (v : Version) | tilde (v : Version) | exact (v : Version)
  | gte (v : Version) | gt (v : Version) | lte (v : Version) | lt (v : Version)
  | any | wildcardMajor (major : Nat) | wildcardMinor (major minor : Nat)
  | anchored (r : Req) (a : Version)     -- `Partial { requirement, anchor }`: matches like `r`, is anchored at `a`
deriving Repr, DecidableEq

/-- `VersionRequirement::parse_wildcard` -/
def parseWildcard (spec : Text) : Option Req :=
  match splitChar '.' spec with
  | [major, x] => if x == ['*'] then (parseU64 major).map .wildcardMajor else none
  | [major, minor, x] =>
    if x == ['*'] then
      match parseU64 major, parseU64 minor with
      | some a, some b => some (.wildcardMinor a b)
      | _, _ => none
    else none
  | _ => none

/-- the lowest version that starts with `M.m`: its prereleases count too (`M.m.0-0`) -/
def floorVer (M m : Nat) : Version := ⟨M, m, 0, ['0'], []⟩

def succU64 (n : Nat) : Option Nat := if n + 1 ≤ u64Max then some (n + 1) else none     -- `checked_add(1)`

/-- what an operator (none: caret) followed by a partial version (`M` or `M.m`) stands for -/
def partialReq (op : String) (M : Nat) (m : Option Nat) : Option Req :=
  match op, m with
  | ">=", m => some (.gte (floorVer M (m.getD 0)))
  | ">", none => (succU64 M).map fun M' => .gte (floorVer M' 0)
  | ">", some m => (succU64 m).map fun m' => .gte (floorVer M m')
  | "<=", none => (succU64 M).map fun M' => .lt (floorVer M' 0)
  | "<=", some m => (succU64 m).map fun m' => .lt (floorVer M m')
  | "<", m => some (.lt (floorVer M (m.getD 0)))
  | "^", some m => if M > 0 then some (.caret (floorVer M m)) else some (.wildcardMinor M m)
  | _, none => some (.wildcardMajor M)
  | _, some m => some (.wildcardMinor M m)

/-- `VersionRequirement::parse_partial`: an optional operator (`<=`, `>=`, `<`, `>`, `=`, `^`, `~`, tried in this order;
    none means caret) followed by a partial version; `none` for a full version, a wildcard pattern or junk -/
def parsePartial (spec : Text) : Option Req :=
  let (op, rest0) : String × Text :=
    match ["<=", ">=", "<", ">", "=", "^", "~"].findSome? fun op => (stripPrefix op.toList spec).map fun r => (op, r) with
    | some x => x
    | none => ("^", spec)
  let rest := trim rest0
  match splitChar '.' rest with
  | [a] => match parseU64 a with | some M => (partialReq op M none).map (.anchored · ⟨M, 0, 0, [], []⟩) | none => none
  | [a, b] =>
    match parseU64 a with
    | none => none
    | some M => match parseU64 b with | some m => (partialReq op M (some m)).map (.anchored · ⟨M, m, 0, [], []⟩) | none => none
  | _ => none

/-- `VersionRequirement::parse` -/
def parseReq (spec0 : Text) : Option Req :=
  let spec := trim spec0
  match parsePartial spec with
  | some r => some r
  | none =>
  match stripPrefix ">=".toList spec with
  | some rest => (parseVersion (trim rest)).map .gte
  | none =>
  match stripPrefix ">".toList spec with
  | some rest => (parseVersion (trim rest)).map .gt
  | none =>
  match stripPrefix "<=".toList spec with
  | some rest => (parseVersion (trim rest)).map .lte
  | none =>
  match stripPrefix "<".toList spec with
  | some rest => (parseVersion (trim rest)).map .lt
  | none =>
  match stripPrefix "=".toList spec with
  | some rest => (parseVersion (trim rest)).map .exact
  | none =>
  match stripPrefix "^".toList spec with
  | some rest => (parseVersion (trim rest)).map .caret
  | none =>
  match stripPrefix "~".toList spec with
  | some rest => (parseVersion (trim rest)).map .tilde
  | none =>
    if spec == ['*'] then some .any
    else match parseWildcard spec with
      | some r => some r
      | none => (parseVersion spec).map .caret

def allSome {α} : List (Option α) → Option (List α)
  | [] => some []
  | none :: _ => none
  | some a :: rest => (allSome rest).map (a :: ·)

/-- `VersionSpec::parse` (comma-separated AND) -/
def parseSpec (spec0 : Text) : Option (List Req) :=
  let spec := trim spec0
  if spec.isEmpty then none
  else allSome ((splitChar ',' spec).map (fun p => parseReq (trim p)))

/-- `VersionRequirement::satisfies` -/
def satisfiesReq (r : Req) (version : Version) : Bool :=
  match r with
  | .caret v =>
    if plt version v then false
    else if v.major == 0 then
      if v.minor == 0 then version.major == 0 && version.minor == 0 && version.patch == v.patch
      else version.major == 0 && version.minor == v.minor
    else version.major == v.major
  | .tilde v => pge version v && version.major == v.major && version.minor == v.minor
  | .exact v => peq version v
  | .gte v => pge version v
  | .gt v => pgt version v
  | .lte v => ple version v
  | .lt v => plt version v
  | .any => true
  | .wildcardMajor m => version.major == m
  | .wildcardMinor m n => version.major == m && version.minor == n
  | .anchored r _ => satisfiesReq r version

def baseReq : Req → Option Version
  | .caret v | .tilde v | .exact v | .gte v | .gt v | .lte v | .lt v => some v
  | .any => none
  | .wildcardMajor m => some ⟨m, 0, 0, [], []⟩
  | .wildcardMinor m n => some ⟨m, n, 0, [], []⟩
  | .anchored _ a => some a

def satisfies (rs : List Req) (v : Version) : Bool := rs.all (satisfiesReq · v)

def baseVersion : List Req → Option Version
  | [] => none
  | r :: _ => baseReq r

def versionExists (spec : Text) (available : List Text) : Bool :=
  match parseSpec spec with
  | none => false
  | some s => available.any fun v =>
    match parseStrict v with
    | some ver => satisfies s ver
    | none => false

def compareToLatest (current latest : Text) : CompareResult :=
  match parseSpec current with
  | none => .invalid
  | some spec =>
    match parseStrict latest with
    | none => .invalid
    | some l =>
      if satisfies spec l then .latest
      else match baseVersion spec with
        | none => .latest
        | some base => if plt base l then .outdated else .newer

def matcher : Matcher := ⟨versionExists, compareToLatest⟩

end Crates
end Vlsp
