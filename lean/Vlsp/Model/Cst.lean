/-
  The concrete syntax tree tree-sitter hands to the parsers (src/parser/*.rs), as data: node kind, byte
  range, start/end point, field name, children in order (anonymous tokens and extras included, as
  `Node::children` yields them).  The grammars themselves are not modelled: trees come from the real
  tree-sitter (harness op `ts.dump`); what the parsers DO with a tree is what the models capture.
-/
import Vlsp.Model.Slice
import Vlsp.Model.Bump
import Vlsp.Model.Json

namespace Vlsp
open Text Slice

structure NodeInfo where
  kind : String
  sb : Nat          -- start_byte
  eb : Nat          -- end_byte
  sr : Nat          -- start_position().row
  sc : Nat          -- start_position().column (bytes)
  er : Nat
  ec : Nat
  field : Option String
  named : Bool
  missing : Bool
deriving Repr, DecidableEq, Inhabited

inductive Node where
  | mk (info : NodeInfo) (children : List Node)
deriving Repr, Inhabited

namespace Node
def info : Node → NodeInfo | mk i _ => i
def children : Node → List Node | mk _ cs => cs
def kind (n : Node) : String := n.info.kind
def sb (n : Node) : Nat := n.info.sb
def eb (n : Node) : Nat := n.info.eb
/-- `child_by_field_name` -/
def childByField (n : Node) (f : String) : Option Node := n.children.find? fun c => c.info.field == some f
/-- `child(0)` -/
def child0 (n : Node) : Option Node := n.children.head?
/-- the first child that is not a comment (deno.jsonc: comments may precede the root object) -/
def firstValue (n : Node) : Option Node := n.children.find? fun c => c.kind != "comment"
end Node

namespace Cst

/-- `&content[node.byte_range()]`; a range that is not sliceable would panic in Rust (C06 class
    treesitter-boundary) — here it yields the empty text and `sliceable` records the fact -/
def nodeText (content : Text) (n : Node) : Text := (slice content n.sb n.eb).getD []

def sliceable (content : Text) (n : Node) : Bool := (slice content n.sb n.eb).isSome

/-- `str::trim_start_matches(char)` -/
def trimStartChar (c : Char) : Text → Text
  | [] => []
  | x :: xs => if x == c then trimStartChar c xs else x :: xs

/-- `str::trim_end_matches(char)` -/
def trimEndChar (c : Char) (t : Text) : Text := (trimStartChar c t.reverse).reverse

/-- `text.trim().trim_start_matches('"').trim_end_matches('"')` (package_json.rs, deno_json.rs, cargo_toml.rs) -/
def unquoteDq (t : Text) : Text := trimEndChar '"' (trimStartChar '"' (trim t))

/-- `json_string_value`, the JSON parsers' reading of a string token (quotes included): a token that contains an escape
    and is a well-formed JSON string stands for its decoded value (`serde_json::from_str::<String>`), any other token for
    the text between its quotes -/
def jsonStr (t : Text) : Text :=
  let tr := trim t
  if tr.any (· == '\\') then
    match tr with
    | '"' :: body =>
      match Json.parseStrBody (body.length + 1) body [] with
      | some (d, []) => d
      | _ => unquoteDq t
    | _ => unquoteDq t
  else unquoteDq t

/-- the YAML parsers' `get_node_text`: both quote characters, double quotes first -/
def unquoteBoth (t : Text) : Text :=
  trimEndChar '\'' (trimStartChar '\'' (trimEndChar '"' (trimStartChar '"' (trim t))))

end Cst
end Vlsp
