/-
  Relational model of the SQLite cache (src/version/cache.rs): the three tables
  as row lists, and the fixed SQL statements the code issues as functions on them.
  Semantics assumed of SQLite (DESIGN.md §3): UNIQUE constraints, INSERT OR IGNORE,
  ON CONFLICT DO NOTHING / DO UPDATE, conditional UPDATE, AUTOINCREMENT ids.
-/
import Vlsp.Text
import Vlsp.Generated

namespace Vlsp
open Text

structure Key where
  reg : Text
  name : Text
deriving DecidableEq, Repr, Inhabited

structure Pkg where
  id : Nat
  key : Key
  updatedAt : Int
  fetchingSince : Option Int
  notFound : Bool
deriving DecidableEq, Repr, Inhabited

structure Db where
  pkgs : List Pkg := []
  vers : List (Nat × Text) := []          -- (package_id, version)
  tags : List (Nat × Text × Text) := []   -- (package_id, tag_name, version)
  nextId : Nat := 1
deriving Repr, Inhabited

namespace Db

def empty : Db := {}

def findPkg (db : Db) (k : Key) : Option Pkg := db.pkgs.find? (fun p => p.key == k)

/-- `SELECT id FROM packages WHERE registry_type = ?1 AND package_name = ?2` -/
def selectId (db : Db) (k : Key) : Option Nat := (db.findPkg k).map (·.id)

def insertPkg (db : Db) (k : Key) (now : Int) (fs : Option Int) (nf : Bool) : Db :=
  { db with pkgs := db.pkgs ++ [⟨db.nextId, k, now, fs, nf⟩], nextId := db.nextId + 1 }

def updatePkgs (db : Db) (k : Key) (f : Pkg → Pkg) : Db :=
  { db with pkgs := db.pkgs.map fun p => if p.key == k then f p else p }

/-- `INSERT INTO packages … ON CONFLICT(registry_type, package_name) DO UPDATE SET updated_at = excluded.updated_at` -/
def stmtUpsertTouch (db : Db) (k : Key) (now : Int) : Db :=
  if (db.findPkg k).isSome then db.updatePkgs k (fun p => { p with updatedAt := now })
  else db.insertPkg k now none false

/-- `INSERT INTO packages … ON CONFLICT(registry_type, package_name) DO NOTHING` -/
def stmtInsertPkgIgnore (db : Db) (k : Key) (now : Int) : Db :=
  if (db.findPkg k).isSome then db else db.insertPkg k now none false

/-- `INSERT OR IGNORE INTO versions (package_id, version) VALUES (?1, ?2)` -/
def stmtInsertVersionIgnore (db : Db) (pid : Nat) (v : Text) : Db :=
  if db.vers.contains (pid, v) then db else { db with vers := db.vers ++ [(pid, v)] }

/-- `DELETE FROM dist_tags WHERE package_id = ?1` -/
def stmtDeleteTags (db : Db) (pid : Nat) : Db :=
  { db with tags := db.tags.filter fun r => r.1 != pid }

/-- `INSERT INTO dist_tags (package_id, tag_name, version) VALUES (?1, ?2, ?3)` (caller guarantees no conflict) -/
def stmtInsertTag (db : Db) (pid : Nat) (t v : Text) : Db :=
  { db with tags := db.tags ++ [(pid, t, v)] }

def claimable (p : Pkg) (threshold : Int) : Bool :=
  match p.fetchingSince with
  | none => true
  | some fs => fs < threshold

/-- `UPDATE packages SET fetching_since = ?1 WHERE … AND (fetching_since IS NULL OR fetching_since < ?4)`;
    returns the number of rows changed -/
def stmtClaimUpdate (db : Db) (k : Key) (now threshold : Int) : Db × Nat :=
  let n := (db.pkgs.filter fun p => p.key == k && claimable p threshold).length
  (db.updatePkgs k fun p => if claimable p threshold then { p with fetchingSince := some now } else p, n)

/-- `INSERT OR IGNORE INTO packages (registry_type, package_name, updated_at, fetching_since) VALUES (?1, ?2, ?3, ?4)` -/
def stmtClaimInsert (db : Db) (k : Key) (now : Int) : Db × Nat :=
  if (db.findPkg k).isSome then (db, 0) else (db.insertPkg k now (some now) false, 1)

/-- `UPDATE packages SET fetching_since = NULL WHERE …` -/
def stmtFinish (db : Db) (k : Key) : Db := db.updatePkgs k (fun p => { p with fetchingSince := none })

/-- `INSERT INTO packages (…, not_found) VALUES (?1, ?2, ?3, 1) ON CONFLICT(…) DO UPDATE SET not_found = 1` -/
def stmtMark (db : Db) (k : Key) (now : Int) : Db :=
  if (db.findPkg k).isSome then db.updatePkgs k (fun p => { p with notFound := true })
  else db.insertPkg k now none true

/-! reads -/

/-- `SELECT v.version FROM versions v JOIN packages p ON v.package_id = p.id WHERE p.registry_type = ?1 AND p.package_name = ?2`
    (the UNIQUE key makes the join single-valued) -/
def versionsOf (db : Db) (k : Key) : List Text :=
  match db.findPkg k with
  | none => []
  | some p => (db.vers.filter fun r => r.1 == p.id).map (·.2)

def tagsOf (db : Db) (k : Key) : List (Text × Text) :=
  match db.findPkg k with
  | none => []
  | some p => (db.tags.filter fun r => r.1 == p.id).map (·.2)

/-- `SELECT dt.version … AND dt.tag_name = ?3` (first row) -/
def tagOf (db : Db) (k : Key) (t : Text) : Option Text :=
  ((db.tagsOf k).find? fun r => r.1 == t).map (·.2)

end Db
end Vlsp
