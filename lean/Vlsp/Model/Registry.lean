/-
  Models of the six registry adapters (src/version/registries/*.rs): the request path for a
  package name, and the interpretation of (status, body) as versions + tags or an error.
  JSON text → value is `Json.parse`; serde's derive semantics for the response structs are
  written out per field (required / default / Option, unknown fields ignored, duplicates rejected).
-/
import Vlsp.Model.Json
import Vlsp.Generated

namespace Vlsp
open Text Json

namespace Registry

inductive RegErr | notFound | rateLimited | invalid
deriving DecidableEq, Repr

structure Reply where
  versions : List Text
  tags : List (Text × Text)
deriving Repr, DecidableEq

abbrev Res := Except RegErr Reply

inductive Adapter | npm | crates | go | github | jsr | pypi
deriving DecidableEq, Repr

/-! request paths -/

/-- `encode_package_name` (npm): scoped names have `/` replaced by `%2F` -/
def npmEncode (name : Text) : Text :=
  if startsWith name ['@'] then name.flatMap fun c => if c == '/' then "%2F".toList else [c] else name

/-- `encode_module_path` (Go): upper-case ASCII letters become `!` + lower case -/
def goEncode (path : Text) : Text :=
  path.flatMap fun c => if 'A' ≤ c && c ≤ 'Z' then ['!', asciiLower c] else [c]

def requestPath (a : Adapter) (name : Text) : Text :=
  match a with
  | .npm => '/' :: npmEncode name
  | .crates => '/' :: name
  | .go => '/' :: goEncode name ++ "/@v/list".toList
  | .github => "/repos/".toList ++ name ++ "/releases".toList
  | .jsr => '/' :: name ++ "/meta.json".toList
  | .pypi => "/pypi/".toList ++ name ++ "/json".toList

/-! status handling -/

def isSuccess (status : Nat) : Bool := 200 ≤ status && status < 300

/-- what the adapter does before looking at the body -/
def statusErr (a : Adapter) (status : Nat) : Option RegErr :=
  if status == 404 then some .notFound
  else if a == .go && status == 410 then some .notFound
  else if a == .github && status == 429 then some .rateLimited
  else if !isSuccess status then some .invalid
  else none

/-! bodies -/

def strMap (j : Json) : Option (List (Text × Text)) :=
  match j with
  | .obj kvs => kvs.foldr (fun (k, v) acc =>
      match v, acc with
      | .str s, some l => some ((k, s) :: l)
      | _, _ => none) (some [])
  | _ => none

/-- last occurrence wins for duplicate map keys (serde `HashMap`) -/
def dedupLast {α} (l : List (Text × α)) : List (Text × α) :=
  l.foldr (fun (k, v) acc => if acc.any (·.1 == k) then acc else (k, v) :: acc) []

def npmBody (j : Json) : Option Reply :=
  match j with
  | .obj kvs =>
    if dupField kvs ["versions", "dist-tags", "time"] then none
    else
      match get? kvs "versions" with
      | some (.obj vs) =>
        let tags : Option (List (Text × Text)) :=
          match get? kvs "dist-tags" with
          | none => some []
          | some t => strMap t
        let timeOk : Bool :=
          match get? kvs "time" with
          | none => true
          | some t => (strMap t).isSome
        match tags, timeOk with
        | some tg, true => some ⟨(dedupLast vs).map (·.1), dedupLast tg⟩
        | _, _ => none
      | _ => none
  | _ => none

def cratesBody (j : Json) : Option Reply :=
  match j with
  | .obj kvs =>
    if dupField kvs ["versions"] then none
    else
      match get? kvs "versions" with
      | some (.arr items) =>
        let rows : Option (List (Text × Bool)) := items.foldr (fun it acc =>
          match it, acc with
          | .obj f, some l =>
            if dupField f ["num", "yanked", "created_at"] then none
            else match get? f "num", get? f "yanked", get? f "created_at" with
              | some (.str n), some (.bool y), some (.str _) => some ((n, y) :: l)
              | _, _, _ => none
          | _, _ => none) (some [])
        match rows with
        | some rs => some ⟨(rs.filter fun r => !r.2).map (·.1), []⟩
        | none => none
      | _ => none
  | _ => none

def jsrBody (j : Json) : Option Reply :=
  match j with
  | .obj kvs =>
    if dupField kvs ["latest", "versions"] then none
    else
      let latestOk : Bool := match get? kvs "latest" with
        | none | some .null | some (.str _) => true
        | _ => false
      match get? kvs "versions", latestOk with
      | some (.obj vs), true =>
        let rows : Option (List (Text × Bool)) := vs.foldr (fun (k, it) acc =>
          match it, acc with
          | .obj f, some l =>
            if dupField f ["createdAt", "yanked"] then none
            else
              let cOk : Bool := match get? f "createdAt" with
                | none | some .null | some (.str _) => true
                | _ => false
              let y : Option Bool := match get? f "yanked" with
                | none => some false
                | some (.bool b) => some b
                | _ => none
              match cOk, y with
              | true, some b => some ((k, b) :: l)
              | _, _ => none
          | _, _ => none) (some [])
        match rows with
        | some rs => some ⟨((dedupLast rs).filter fun r => !r.2).map (·.1), []⟩
        | none => none
      | _, _ => none
  | _ => none

/-- an empty struct (`PypiFile`) deserialises from any object, or from an empty array -/
def emptyStructOk : Json → Bool
  | .obj _ => true
  | .arr [] => true
  | _ => false

def pypiBody (j : Json) : Option Reply :=
  match j with
  | .obj kvs =>
    if dupField kvs ["info", "releases"] then none
    else
      match get? kvs "info", get? kvs "releases" with
      | some (.obj info), some (.obj rel) =>
        if dupField info ["version"] then none
        else match get? info "version" with
          | some (.str v) =>
            let ok := rel.all fun (_, files) => match files with
              | .arr fs => fs.all emptyStructOk
              | _ => false
            if ok then some ⟨(dedupLast rel).map (·.1), [("latest".toList, v)]⟩ else none
          | _ => none
      | _, _ => none
  | _ => none

def githubBody (j : Json) : Option Reply :=
  match j with
  | .arr items =>
    let rows : Option (List Text) := items.foldr (fun it acc =>
      match it, acc with
      | .obj f, some l =>
        if dupField f ["tag_name", "published_at"] then none
        else
          let pOk : Bool := match get? f "published_at" with
            | none | some .null | some (.str _) => true
            | _ => false
          match get? f "tag_name", pOk with
          | some (.str t), true => some (t :: l)
          | _, _ => none
      | _, _ => none) (some [])
    match rows with
    | some ts => some ⟨ts, []⟩
    | none => none
  | _ => none

/-- Go proxy `/@v/list`: one version per line, empty lines dropped -/
def goBody (body : Text) : Reply :=
  ⟨(lines body).filter fun l => !l.isEmpty, []⟩

/-- body interpretation per adapter: `none` = not of the reply shape -/
def bodyOf (a : Adapter) (body : Text) : Option Reply :=
  if a == .go then some (goBody body)
  else
    match Json.parse body with
    | none => none
    | some j =>
      match a with
      | .npm => npmBody j
      | .crates => cratesBody j
      | .jsr => jsrBody j
      | .pypi => pypiBody j
      | .github => githubBody j
      | .go => some (goBody body)

/-- `fetch_all_versions`: interpretation of one HTTP reply (the first and only one read) -/
def interpret (a : Adapter) (status : Nat) (body : Text) : Res :=
  match statusErr a status with
  | some e => .error e
  | none =>
    match bodyOf a body with
    | some r => .ok r
    | none => .error .invalid

/-! ### the GitHub releases API is paginated -/

def trimStartC (c : Char) : Text → Text
  | [] => []
  | x :: xs => if x == c then trimStartC c xs else x :: xs

def trimEndC (c : Char) (t : Text) : Text := (trimStartC c t.reverse).reverse

/-- `next_page_url`: the target of the `rel="next"` part of a `Link` header value -/
def nextLink (value : Text) : Option Text :=
  (splitChar ',' value).findSome? fun part =>
    match splitOnceChar ';' part with
    | none => none
    | some (target, params) =>
      if (splitChar ';' params).any (fun p => trim p == "rel=\"next\"".toList) then
        some (trimEndC '>' (trimStartC '<' (trim target)))
      else none

/-- the value of header `name` (lower case) in a raw header block `Name: value\r\n…` -/
def headerValue (name : Text) (headers : Text) : Option Text :=
  (splitOn "\r\n".toList headers).findSome? fun line =>
    match splitOnceChar ':' line with
    | some (n, v) => if toLowerAscii (trim n) == name then some (trim v) else none
    | none => none

/-- one HTTP exchange as the adapter sees it -/
structure Page where
  status : Nat
  headers : Text
  body : Text

/-- `GitHubRegistry::fetch_all_versions`: pages are read while a `rel="next"` link is advertised, at most
    `MAX_RELEASE_PAGES`; any page's error is the result.  Second component: the link targets followed. -/
def githubFetchAux : (pagesLeft : Nat) → List Page → (acc : List Text) → (links : List Text) → Res × List Text
  | _, [], acc, links => (.ok ⟨acc, []⟩, links)
  | 0, _, acc, links => (.ok ⟨acc, []⟩, links)
  | n + 1, pg :: rest, acc, links =>
    match statusErr .github pg.status with
    | some e => (.error e, links)
    | none =>
      match bodyOf .github pg.body with
      | none => (.error .invalid, links)
      | some r =>
        match (if n == 0 then none else (headerValue "link".toList pg.headers).bind nextLink) with
        | some target => githubFetchAux n rest (acc ++ r.versions) (links ++ [target])
        | none => (.ok ⟨acc ++ r.versions, []⟩, links)

def githubFetch (pages : List Page) : Res × List Text := githubFetchAux Generated.maxReleasePages pages [] []

/-- `GitHubRegistry::fetch_tag_sha`: first page of `/repos/<name>/tags`, exact name equality -/
def fetchTagSha (status : Nat) (body : Text) (tag : Text) : Except RegErr Text :=
  if status == 404 then .error .notFound
  else if status == 429 then .error .rateLimited
  else if !isSuccess status then .error .invalid
  else
    match Json.parse body with
    | some (.arr items) =>
      let rows : Option (List (Text × Text)) := items.foldr (fun it acc =>
        match it, acc with
        | .obj f, some l =>
          if dupField f ["name", "commit"] then none
          else match get? f "name", get? f "commit" with
            | some (.str n), some (.obj c) =>
              if dupField c ["sha"] then none
              else match get? c "sha" with
                | some (.str s) => some ((n, s) :: l)
                | _ => none
            | _, _ => none
        | _, _ => none) (some [])
      match rows with
      | none => .error .invalid
      | some rs =>
        match rs.find? (·.1 == tag) with
        | some (_, sha) => .ok sha
        | none => .error .notFound
    | _ => .error .invalid

end Registry
end Vlsp
