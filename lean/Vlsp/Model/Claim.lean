/-
  Small-step model of fetch claims (src/version/cache.rs try_start_fetch / finish_fetch)
  at SQL-statement granularity, for any number of claimants:
    * a claimant on its own handle runs  UPDATE-if-free-or-expired ; (if 0 rows) INSERT OR IGNORE
      as two separately scheduled statements, both using the `now` it read at entry;
    * claimants sharing a handle hold the connection mutex across both statements
      (`startAtomic`);
    * any statement may instead fail (`busy`) with no effect;  `release` is finish_fetch
      (by anyone); `die` stops a claimant for ever; `tick` advances the one global clock.
  Ghost state: the list of wins not yet released.
-/
import Vlsp.Model.Cache

namespace Vlsp
open Text Db

namespace Claim

abbrev Claimant := Nat

structure Win where
  who : Claimant
  key : Key
  since : Int
deriving DecidableEq, Repr

structure Sys where
  db : Db
  now : Int
  entered : List (Claimant × Key × Int)   -- has read the clock (`now` at entry), has not issued the UPDATE yet
  pending : List (Claimant × Key × Int)   -- between the UPDATE (0 rows) and the INSERT, with the `now` read at entry
  wins : List Win                         -- ghost: successful claims since the last release of their key
  lost : List (Claimant × Key)            -- ghost: attempts that returned false / error

inductive Ev
  | enter (c : Claimant) (k : Key)        -- try_start_fetch entered: the clock is read
  | update (c : Claimant)                 -- first statement (conditional UPDATE), with the clock value read at entry
  | insert (c : Claimant)                 -- second statement (only if pending)
  | startAtomic (c : Claimant) (k : Key)  -- both statements under the handle mutex
  | busy (c : Claimant)                   -- the pending statement fails with SQLITE_BUSY
  | release (k : Key)                     -- finish_fetch(k)
  | die (c : Claimant)
  | tick (d : Nat)
  | store (k : Key) (vs : List Text)      -- replace_versions(k) by whoever (normally the owner, while it holds the claim)
  | mark (k : Key)                        -- mark_not_found(k)

def timeout : Int := Generated.fetchTimeoutMs

def init (db : Db) (now : Int) : Sys := ⟨db, now, [], [], [], []⟩

def step (σ : Sys) : Ev → Sys
  | .enter c k => { σ with entered := (c, k, σ.now) :: σ.entered }
  | .update c =>
    match σ.entered.find? (·.1 == c) with
    | none => σ
    | some (_, k, t0) =>
      let (db', n) := σ.db.stmtClaimUpdate k t0 (t0 - timeout)
      let ent := σ.entered.filter (·.1 != c)
      if n > 0 then { σ with db := db', entered := ent, wins := ⟨c, k, t0⟩ :: σ.wins }
      else { σ with db := db', entered := ent, pending := (c, k, t0) :: σ.pending }
  | .insert c =>
    match σ.pending.find? (·.1 == c) with
    | none => σ
    | some (_, k, t0) =>
      let (db', m) := σ.db.stmtClaimInsert k t0
      let pend := σ.pending.filter (·.1 != c)
      if m > 0 then { σ with db := db', pending := pend, wins := ⟨c, k, t0⟩ :: σ.wins }
      else { σ with db := db', pending := pend, lost := (c, k) :: σ.lost }
  | .startAtomic c k =>
    let (db', b) := Cache.tryStartFetch σ.db k σ.now
    if b then { σ with db := db', wins := ⟨c, k, σ.now⟩ :: σ.wins }
    else { σ with db := db', lost := (c, k) :: σ.lost }
  | .busy c =>
    match σ.pending.find? (·.1 == c) with
    | none => σ
    | some (_, k, _) => { σ with pending := σ.pending.filter (·.1 != c), lost := (c, k) :: σ.lost }
  | .release k => { σ with db := σ.db.stmtFinish k, wins := σ.wins.filter (·.key != k) }
  | .die c => { σ with pending := σ.pending.filter (·.1 != c), entered := σ.entered.filter (·.1 != c) }
  | .tick d => { σ with now := σ.now + d }
  | .store k vs => { σ with db := Cache.replaceVersions σ.db k vs σ.now }
  | .mark k => { σ with db := Cache.markNotFound σ.db k σ.now }

def runEvs (σ : Sys) (evs : List Ev) : Sys := evs.foldl step σ

/-- `c` holds `k` now: it won, nobody released `k` since, and at most `timeout` ms have passed -/
def Held (σ : Sys) (c : Claimant) (k : Key) : Prop :=
  ∃ w ∈ σ.wins, w.who = c ∧ w.key = k ∧ σ.now ≤ w.since + timeout

end Claim
end Vlsp
