/-
  Model of the `semver` crate (1.0.27) as used by version-lsp:
  `Version::parse` (strict), `Ord`, `Display`; and of
  src/version/semver.rs: `parse_version` (lenient), `is_prerelease`,
  `calculate_latest_{patch,minor,major}`.
-/
import Vlsp.Text

namespace Vlsp
open Text

structure Version where
  major : Nat
  minor : Nat
  patch : Nat
  pre   : Text   -- raw prerelease string, "" when absent
  build : Text   -- raw build metadata string, "" when absent
deriving DecidableEq, Repr, Inhabited

namespace Semver

def identChar (c : Char) : Bool := isAsciiAlnum c || c == '-'

/-- maximal prefix satisfying `p`, and the rest -/
def spanP (p : Char → Bool) : Text → Text × Text
  | [] => ([], [])
  | c :: cs => if p c then let (a, b) := spanP p cs; (c :: a, b) else ([], c :: cs)

/-- `numeric_identifier` of semver/src/parse.rs -/
def numericIdent (t : Text) : Option (Nat × Text) :=
  let (ds, rest) := spanP isAsciiDigit t
  match ds with
  | [] => none
  | d :: more =>
    if d == '0' && !more.isEmpty then none           -- leading zero
    else
      let v := digitsVal ds 0
      if v ≤ u64Max then some (v, rest) else none    -- overflow

/-- `identifier` of semver/src/parse.rs.  `fuel` bounds the number of segments. -/
def identifierAux (isPre : Bool) : Nat → (input : Text) → (acc : Text) → Option (Text × Text)
  | 0, _, _ => none
  | fuel + 1, input, acc =>
    let (seg, rest) := spanP identChar input
    if seg.isEmpty then
      -- empty segment: only legal as "nothing at all", and not before a '.'
      if acc.isEmpty && !(startsWith rest ['.']) then some ([], input) else none
    else if isPre && seg.length > 1 && seg.all isAsciiDigit && startsWith seg ['0'] then none
    else
      match rest with
      | '.' :: rest' => identifierAux isPre fuel rest' (acc ++ seg ++ ['.'])
      | _ => some (acc ++ seg, rest)

def identifier (isPre : Bool) (input : Text) : Option (Text × Text) :=
  identifierAux isPre (input.length + 1) input []

/-- an optional `-prerelease` part: (prerelease, rest); `none` = malformed -/
def preStep (t : Text) : Option (Text × Text) :=
  match t with
  | '-' :: t' =>
    match identifier true t' with
    | some (pre, r) => if pre.isEmpty then none else some (pre, r)
    | none => none
  | _ => some ([], t)

/-- an optional `+build` part -/
def buildStep (t : Text) : Option (Text × Text) :=
  match t with
  | '+' :: t' =>
    match identifier false t' with
    | some (b, r) => if b.isEmpty then none else some (b, r)
    | none => none
  | _ => some ([], t)

/-- what follows `major.minor.patch` -/
def tailStep (major minor patch : Nat) (t : Text) : Option Version :=
  if t.isEmpty then some ⟨major, minor, patch, [], []⟩
  else
    match preStep t with
    | none => none
    | some (pre, t) =>
      match buildStep t with
      | none => none
      | some (build, t) => if t.isEmpty then some ⟨major, minor, patch, pre, build⟩ else none

def expectDot (t : Text) : Option Text :=
  match t with
  | '.' :: r => some r
  | _ => none

/-- `Version::parse` (strict SemVer 2.0 with u64 components). -/
def parseStrict (t : Text) : Option Version :=
  match numericIdent t with
  | none => none
  | some (major, t) =>
  match expectDot t with
  | none => none
  | some t =>
  match numericIdent t with
  | none => none
  | some (minor, t) =>
  match expectDot t with
  | none => none
  | some t =>
  match numericIdent t with
  | none => none
  | some (patch, t) => tailStep major minor patch t

/-- `Display for Version` -/
def toText (v : Version) : Text :=
  natToText v.major ++ ['.'] ++ natToText v.minor ++ ['.'] ++ natToText v.patch ++
  (if v.pre.isEmpty then [] else '-' :: v.pre) ++
  (if v.build.isEmpty then [] else '+' :: v.build)

/-! Ordering.  Written with core's comparator combinators (`compareLex`,
`compareOn`, `List.compareLex`) so that orientation and transitivity follow
from core's `Std.OrientedCmp` / `Std.TransCmp` instances. -/

def cmpNat (a b : Nat) : Ordering := compare a b

/-- byte-wise `str` comparison = code-point-wise comparison (UTF-8 preserves order) -/
def cmpText : Text → Text → Ordering := List.compareLex (compareOn Char.toNat)

/-- comparator on the image of `f` -/
def cmpVia {α β} (f : α → β) (c : β → β → Ordering) (a b : α) : Ordering := c (f a) (f b)

def isNumericIdent (t : Text) : Bool := t.all isAsciiDigit

/-- one prerelease identifier against another (`Ord for Prerelease`, loop body):
    numeric < alphanumeric; numeric: by length then text; alphanumeric: by text -/
def cmpPreIdent : Text → Text → Ordering :=
  compareLex (compareOn fun t => !isNumericIdent t)
    (compareLex (compareOn fun t => if isNumericIdent t then t.length else 0) cmpText)

/-- `Ord for Prerelease`: empty (a release) is greatest; otherwise identifier-wise,
    a longer list of equal identifiers is greater -/
def cmpPre : Text → Text → Ordering :=
  compareLex (compareOn fun t => t.isEmpty) (cmpVia (splitChar '.') (List.compareLex cmpPreIdent))

def trimZeros : Text → Text
  | '0' :: cs => trimZeros cs
  | t => t

/-- one build identifier against another (`Ord for BuildMetadata`, loop body) -/
def cmpBuildIdent : Text → Text → Ordering :=
  compareLex (compareOn fun t => !isNumericIdent t)
    (compareLex (compareOn fun t => if isNumericIdent t then (trimZeros t).length else 0)
      (compareLex (cmpVia (fun t => if isNumericIdent t then trimZeros t else t) cmpText)
        (compareOn fun t => if isNumericIdent t then t.length else 0)))

/-- `Ord for BuildMetadata` -/
def cmpBuild : Text → Text → Ordering := cmpVia (splitChar '.') (List.compareLex cmpBuildIdent)

/-- derived `Ord for Version` : lexicographic over the five fields -/
def cmp : Version → Version → Ordering :=
  compareLex (compareOn Version.major) <|
  compareLex (compareOn Version.minor) <|
  compareLex (compareOn Version.patch) <|
  compareLex (cmpVia Version.pre cmpPre) (cmpVia Version.build cmpBuild)

def ordThen (a b : Ordering) : Ordering := a.then b

/-- `Version::cmp_precedence`: SemVer precedence — the derived order without the build metadata -/
def cmpPrecedence : Version → Version → Ordering :=
  compareLex (compareOn Version.major) <|
  compareLex (compareOn Version.minor) <|
  compareLex (compareOn Version.patch) (cmpVia Version.pre cmpPre)

def plt (a b : Version) : Bool := cmpPrecedence a b == .lt
def ple (a b : Version) : Bool := cmpPrecedence a b != .gt
def pgt (a b : Version) : Bool := cmpPrecedence a b == .gt
def pge (a b : Version) : Bool := cmpPrecedence a b != .lt
def peq (a b : Version) : Bool := cmpPrecedence a b == .eq

def lt (a b : Version) : Bool := cmp a b == .lt
def le (a b : Version) : Bool := cmp a b != .gt
def gt (a b : Version) : Bool := cmp a b == .gt
def ge (a b : Version) : Bool := cmp a b != .lt

/-- src/version/semver.rs `parse_version`: strip range prefixes (each kind
    repeatedly, in this fixed order), pad to three components, strict parse. -/
def stripPrefixes (t : Text) : Text :=
  t |> trimStartMatches ['~', '=']
    |> trimStartMatches ['>', '=']
    |> trimStartMatches ['<', '=']
    |> trimStartMatches ['>']
    |> trimStartMatches ['<']
    |> trimStartMatches ['=']
    |> trimStartMatches ['^']
    |> trimStartMatches ['~']
    |> trimStartMatches ['v']

def parseVersion (t : Text) : Option Version :=
  let stripped := stripPrefixes t
  let parts := splitChar '.' stripped
  let normalized :=
    match parts with
    | [a] => a ++ ".0.0".toList
    | [a, b] => a ++ ['.'] ++ b ++ ".0".toList
    | _ => stripped
  parseStrict normalized

def isPrerelease (t : Text) : Bool :=
  match parseVersion t with
  | some v => !v.pre.isEmpty
  | none => false

/-- `Iterator::max` / `max_by`: the LAST of several equal maxima. -/
def lastMaxBy {α} (cmpf : α → α → Ordering) : List α → Option α
  | [] => none
  | x :: xs => some (xs.foldl (fun best y => if cmpf best y == .gt then best else y) x)

def calcLatest (keep : Version → Version → Bool) (current : Text) (available : List Text) : Option Text :=
  match parseVersion current with
  | none => none
  | some cur =>
    match lastMaxBy cmp ((available.filterMap parseVersion).filter (keep cur)) with
    | none => none
    | some best => if gt best cur then some (toText best) else none

def calcLatestPatch := calcLatest (fun cur v => v.major == cur.major && v.minor == cur.minor)
def calcLatestMinor := calcLatest (fun cur v => v.major == cur.major)
def calcLatestMajor := calcLatest (fun _ _ => true)

end Semver
end Vlsp
