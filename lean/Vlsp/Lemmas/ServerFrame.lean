/-
  Frame lemmas for the server model: which steps can change the DATA (versions, tags) the diagnoses read,
  and for which keys.  Used by the full C13 theorem.
-/
import Vlsp.Model.Server
import Vlsp.Props.C08

namespace Vlsp.ServerFrame
open Vlsp Vlsp.Text Vlsp.Server Vlsp.Cache Vlsp.Db Vlsp.C08

/-- two databases hold the same data for key `k` -/
def SameData (a b : Db) (k : Key) : Prop := a.versionsOf k = b.versionsOf k ∧ a.tagsOf k = b.tagsOf k

theorem SameData.refl (a : Db) (k : Key) : SameData a a k := ⟨rfl, rfl⟩
theorem SameData.trans {a b c : Db} {k : Key} (h1 : SameData a b k) (h2 : SameData b c k) : SameData a c k :=
  ⟨h1.1.trans h2.1, h1.2.trans h2.2⟩
theorem SameData.symm {a b : Db} {k : Key} (h : SameData a b k) : SameData b a k := ⟨h.1.symm, h.2.symm⟩

/-- the reads of a dependency depend only on the data of its key -/
theorem readsOf_congr (s1 s2 : Srv) (k : Key) (hc : s1.ccfg = s2.ccfg) (hf : s1.faults = s2.faults)
    (h : SameData s1.db s2.db k) : readsOf s1 k = readsOf s2 k := by
  unfold readsOf failing getLatestVersion getDistTag getVersions tagOf
  rw [hc, hf, h.1, h.2]

theorem diagnose_congr (s1 s2 : Srv) (reg : String) (pkgs : List PkgInfo) (hc : s1.ccfg = s2.ccfg) (hf : s1.faults = s2.faults)
    (h : ∀ p ∈ pkgs, SameData s1.db s2.db ⟨reg.toList, p.name⟩) : diagnose s1 reg pkgs = diagnose s2 reg pkgs := by
  unfold diagnose
  cases matcherOf reg with
  | none => rfl
  | some m =>
    simp only
    induction pkgs with
    | nil => rfl
    | cons p ps ih =>
      simp only [List.filterMap_cons]
      rw [readsOf_congr s1 s2 _ hc hf (h p (by simp)), ih (fun q hq => h q (by simp [hq]))]

/-! ### claims never change data -/

theorem claimAll_frame (reg : Text) (now : Int) (names : List Text) (db : Db) (hi : Inv db) :
    Inv (claimAll db reg now names).1 ∧ ∀ k, SameData db (claimAll db reg now names).1 k := by
  induction names generalizing db with
  | nil => exact ⟨hi, fun k => SameData.refl db k⟩
  | cons n rest ih =>
    unfold claimAll
    simp only
    have hi1 := inv_tryStartFetch hi ⟨reg, n⟩ now
    obtain ⟨hi2, hs2⟩ := ih (tryStartFetch db ⟨reg, n⟩ now).1 hi1
    refine ⟨hi2, fun k => ?_⟩
    have h1 := c08_claim_keeps_data hi ⟨reg, n⟩ k now
    exact SameData.trans ⟨h1.1.symm, h1.2.symm⟩ (hs2 k)

/-! ### a registry answer changes the data of ITS key only, and only when it succeeds -/

theorem versOfId_foldl_other (db : Db) (pid id : Nat) (vs : List Text) (h : id ≠ pid) :
    (vs.foldl (fun d v => d.stmtInsertVersionIgnore pid v) db).versOfId id = db.versOfId id := by
  induction vs generalizing db with
  | nil => rfl
  | cons v rest ih =>
    simp only [List.foldl_cons]
    rw [ih]
    unfold stmtInsertVersionIgnore
    split
    · rfl
    · unfold versOfId
      simp only [List.filter_append, List.map_append]
      have hne : (pid == id) = false := by simpa using Ne.symm h
      have : List.filter (fun r : Nat × Text => r.1 == id) [(pid, v)] = [] := by
        simp [List.filter, hne]
      rw [this]; simp

theorem replaceVersions_other {db : Db} (hi : Inv db) (k k' : Key) (vs : List Text) (now : Int) (hkk : k' ≠ k) :
    (replaceVersions db k vs now).versionsOf k' = db.versionsOf k' := by
  unfold replaceVersions
  obtain ⟨pid, hs, hlt, hv⟩ := selectId_upsertTouch hi k now
  simp only [hs]
  have hi1 := inv_upsertTouch hi k now
  have hold : (db.stmtUpsertTouch k now).versionsOf k' = db.versionsOf k' := by
    unfold stmtUpsertTouch
    split
    · exact versionsOf_updatePkgs db k k' _ (touch_pres now)
    · exact versionsOf_insertPkg hi k k' now none false
  generalize db.stmtUpsertTouch k now = db1 at hs hlt hv hi1 hold ⊢
  obtain ⟨hp, _, _⟩ := foldl_insert_pkgs db1 pid vs
  have hfind : ∀ k'', (vs.foldl (fun d v => d.stmtInsertVersionIgnore pid v) db1).findPkg k'' = db1.findPkg k'' := by
    intro k''; unfold findPkg; rw [hp]
  rw [versionsOf_eq, hfind, ← hold, versionsOf_eq]
  cases hq : db1.findPkg k' with
  | none => rfl
  | some q =>
    simp only
    have hfk : ∃ p, db1.findPkg k = some p ∧ p.id = pid := by
      unfold selectId at hs
      cases h : db1.findPkg k with
      | none => simp [h] at hs
      | some p => exact ⟨p, rfl, by simpa [h] using hs⟩
    obtain ⟨pk, hpk, hpid⟩ := hfk
    have hne : q.id ≠ pid := by
      intro he
      have m1 := findPkg_some_mem hq
      have m2 := findPkg_some_mem hpk
      have : q = pk := eq_of_nodup_map hi1.idsNodup m1.1 m2.1 (by rw [he, hpid])
      rw [this] at m1
      exact hkk (m1.2.symm.trans m2.2)
    exact versOfId_foldl_other db1 pid q.id vs hne

/-- a registry answer as the code can receive it: the dist-tag map has distinct names (it is a `HashMap`) -/
def wfOutcome : Fetch.Outcome → Prop
  | .ok _ tags => (tags.map (·.1)).Nodup
  | _ => True

theorem applyOutcome_frame {db : Db} (hi : Inv db) (k : Key) (now : Int) (o : Fetch.Outcome) (hw : wfOutcome o) :
    Inv (applyOutcome db k now o).1 ∧ (∀ k', k' ≠ k → SameData db (applyOutcome db k now o).1 k') ∧
    ((applyOutcome db k now o).2 = false → SameData db (applyOutcome db k now o).1 k) := by
  unfold applyOutcome
  cases o with
  | ok vs tags =>
    simp only
    have hi1 := inv_replaceVersions hi k vs now
    have hdata1 : ∀ k', k' ≠ k → SameData db (replaceVersions db k vs now) k' := fun k' hk =>
      ⟨(replaceVersions_other hi k k' vs now hk).symm, (c08_replace_keeps_tags hi k k' vs now).symm⟩
    by_cases ht : tags.isEmpty = true
    · simp only [ht, if_true]
      refine ⟨inv_finishFetch hi1 k, fun k' hk => ?_, by simp⟩
      have hf := c08_finish_keeps_data (replaceVersions db k vs now) k k'
      exact SameData.trans (hdata1 k' hk) ⟨hf.1.symm, hf.2.symm⟩
    · simp only [ht, Bool.false_eq_true, if_false]
      have hne : tags ≠ [] := by intro e; simp [e] at ht
      have hi2 := inv_saveDistTags hi1 k tags now hw
      refine ⟨inv_finishFetch hi2 k, fun k' hk => ?_, by simp⟩
      have h2 : SameData (replaceVersions db k vs now) (saveDistTags (replaceVersions db k vs now) k tags now) k' :=
        ⟨(c08_tags_keep_versions hi1 k k' tags now).symm, (c08_tags_isolation hi1 k k' tags now hk).symm⟩
      have hf := c08_finish_keeps_data (saveDistTags (replaceVersions db k vs now) k tags now) k k'
      exact SameData.trans (SameData.trans (hdata1 k' hk) h2) ⟨hf.1.symm, hf.2.symm⟩
  | notFound =>
    simp only
    have hi1 := inv_markNotFound hi k now
    have hall : ∀ k', SameData db (finishFetch (markNotFound db k now) k) k' := fun k' => by
      have h1 := c08_mark_keeps_data hi k k' now
      have h2 := c08_finish_keeps_data (markNotFound db k now) k k'
      exact ⟨(h2.1.trans h1.1).symm, (h2.2.trans h1.2).symm⟩
    exact ⟨inv_finishFetch hi1 k, fun k' _ => hall k', fun _ => hall k⟩
  | rateLimited =>
    simp only
    have hall : ∀ k', SameData db (finishFetch db k) k' := fun k' => by
      have h2 := c08_finish_keeps_data db k k'; exact ⟨h2.1.symm, h2.2.symm⟩
    exact ⟨inv_finishFetch hi k, fun k' _ => hall k', fun _ => hall k⟩
  | network =>
    simp only
    have hall : ∀ k', SameData db (finishFetch db k) k' := fun k' => by
      have h2 := c08_finish_keeps_data db k k'; exact ⟨h2.1.symm, h2.2.symm⟩
    exact ⟨inv_finishFetch hi k, fun k' _ => hall k', fun _ => hall k⟩
  | invalid =>
    simp only
    have hall : ∀ k', SameData db (finishFetch db k) k' := fun k' => by
      have h2 := c08_finish_keeps_data db k k'; exact ⟨h2.1.symm, h2.2.symm⟩
    exact ⟨inv_finishFetch hi k, fun k' _ => hall k', fun _ => hall k⟩

end Vlsp.ServerFrame
