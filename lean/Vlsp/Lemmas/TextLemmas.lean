import Vlsp.Text

namespace Vlsp.Text

theorem stripPrefix_eq_some {p t r : Text} : stripPrefix p t = some r ↔ t = p ++ r := by
  induction p generalizing t with
  | nil => simp [stripPrefix, eq_comm]
  | cons a ps ih =>
    cases t with
    | nil => simp [stripPrefix]
    | cons c cs =>
      simp only [stripPrefix]
      by_cases h : a = c
      · subst h; simp [ih]
      · simp [h]; intro h'; exact absurd h'.symm h

theorem startsWith_iff {t p : Text} : startsWith t p = true ↔ ∃ r, t = p ++ r := by
  unfold startsWith
  constructor
  · intro h
    cases hs : stripPrefix p t with
    | none => simp [hs] at h
    | some r => exact ⟨r, stripPrefix_eq_some.mp hs⟩
  · rintro ⟨r, rfl⟩
    have : stripPrefix p (p ++ r) = some r := stripPrefix_eq_some.mpr rfl
    simp [this]

theorem endsWith_iff {t p : Text} : endsWith t p = true ↔ ∃ d, t = d ++ p := by
  unfold endsWith stripSuffix
  constructor
  · intro h
    cases hs : stripPrefix p.reverse t.reverse with
    | none => simp [hs] at h
    | some r =>
      refine ⟨r.reverse, ?_⟩
      have := stripPrefix_eq_some.mp hs
      have h2 := congrArg List.reverse this
      simpa using h2
  · rintro ⟨d, rfl⟩
    have : stripPrefix p.reverse (d ++ p).reverse = some d.reverse :=
      stripPrefix_eq_some.mpr (by simp)
    rw [this]; rfl

theorem endsWith_false_iff {t p : Text} : endsWith t p = false ↔ ¬ ∃ d, t = d ++ p := by
  rw [← endsWith_iff]; simp

/-- two suffixes `/a` and `/b` of the same text whose tails contain no `/` coincide -/
theorem slash_suffix_unique {d1 d2 a b : Text} (h : d1 ++ '/' :: a = d2 ++ '/' :: b)
    (ha : '/' ∉ a) (hb : '/' ∉ b) : a = b := by
  have h' := congrArg List.reverse h
  simp only [List.reverse_append, List.reverse_cons, List.append_assoc, List.singleton_append] at h'
  -- a.reverse ++ '/' :: d1.reverse = b.reverse ++ '/' :: d2.reverse
  have key : ∀ (x y : Text) (u v : Text), x ++ '/' :: u = y ++ '/' :: v → '/' ∉ x → '/' ∉ y → x = y := by
    intro x
    induction x with
    | nil =>
      intro y u v hxy _ hy
      cases y with
      | nil => rfl
      | cons c cs =>
        simp at hxy
        exact absurd (hxy.1 ▸ List.mem_cons_self) hy
    | cons c cs ih =>
      intro y u v hxy hx hy
      cases y with
      | nil =>
        simp at hxy
        exact absurd (hxy.1 ▸ List.mem_cons_self) hx
      | cons e es =>
        simp at hxy
        obtain ⟨h1, h2⟩ := hxy
        subst h1
        have := ih es u v h2 (fun hm => hx (List.mem_cons_of_mem _ hm)) (fun hm => hy (List.mem_cons_of_mem _ hm))
        rw [this]
  have := key a.reverse b.reverse d1.reverse d2.reverse (by simpa using h') (by simpa using ha) (by simpa using hb)
  simpa using congrArg List.reverse this

end Vlsp.Text
