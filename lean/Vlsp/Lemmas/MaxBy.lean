import Vlsp.Model.Semver
import Vlsp.Lemmas.SemverOrder

namespace Vlsp.Semver
open Std

variable {α : Type} (c : α → α → Ordering) [TransCmp c]

private theorem c_self (a : α) : c a a = .eq := ReflCmp.compare_self
private theorem c_le_trans {a b d : α} (h1 : c a b ≠ .gt) (h2 : c b d ≠ .gt) : c a d ≠ .gt := by
  have e1 : (c a b).isLE = true := by cases h : c a b <;> simp_all [Ordering.isLE]
  have e2 : (c b d).isLE = true := by cases h : c b d <;> simp_all [Ordering.isLE]
  have := TransCmp.isLE_trans (cmp := c) e1 e2
  cases h : c a d <;> simp_all [Ordering.isLE]

def maxStep (best y : α) : α := if c best y == .gt then best else y

theorem maxStep_spec (x y : α) :
    (maxStep c x y = x ∨ maxStep c x y = y) ∧ c x (maxStep c x y) ≠ .gt ∧ c y (maxStep c x y) ≠ .gt := by
  unfold maxStep
  by_cases h : c x y = .gt
  · have e : (if (c x y == Ordering.gt) = true then x else y) = x := by simp [h]
    rw [e]
    refine ⟨Or.inl rfl, by rw [c_self c]; decide, ?_⟩
    rw [OrientedCmp.eq_swap (cmp := c), h]; decide
  · have : (c x y == .gt) = false := by cases hh : c x y <;> simp_all
    have e : (if (c x y == Ordering.gt) = true then x else y) = y := by simp [this]
    rw [e]
    exact ⟨Or.inr rfl, h, by rw [c_self c]; decide⟩

theorem foldl_max_spec (xs : List α) (x : α) :
    let r := xs.foldl (maxStep c) x
    (r = x ∨ r ∈ xs) ∧ c x r ≠ .gt ∧ ∀ y ∈ xs, c y r ≠ .gt := by
  induction xs generalizing x with
  | nil =>
    show (x = x ∨ x ∈ []) ∧ c x x ≠ .gt ∧ ∀ y ∈ ([] : List α), c y x ≠ .gt
    exact ⟨Or.inl rfl, by rw [c_self c]; decide, by simp⟩
  | cons y ys ih =>
    obtain ⟨hm, hx, hall⟩ := ih (maxStep c x y)
    obtain ⟨hs, hx', hy'⟩ := maxStep_spec c x y
    simp only [List.foldl_cons]
    refine ⟨?_, c_le_trans c hx' hx, ?_⟩
    · rcases hm with hm | hm
      · rcases hs with hs | hs
        · left; rw [hm, hs]
        · right; rw [hm, hs]; exact List.mem_cons_self
      · right; exact List.mem_cons_of_mem _ hm
    · intro z hz
      rcases List.mem_cons.mp hz with rfl | hz
      · exact c_le_trans c hy' hx
      · exact hall z hz

omit [TransCmp c] in
theorem lastMaxBy_eq (xs : List α) :
    lastMaxBy c xs = match xs with | [] => none | x :: r => some (r.foldl (maxStep c) x) := by
  cases xs <;> rfl

/-- `Iterator::max_by`: the result is a member and no member is greater -/
theorem lastMaxBy_spec {xs : List α} {m : α} (h : lastMaxBy c xs = some m) :
    m ∈ xs ∧ ∀ y ∈ xs, c y m ≠ .gt := by
  cases xs with
  | nil => simp [lastMaxBy] at h
  | cons x r =>
    rw [lastMaxBy_eq] at h
    simp only [Option.some.injEq] at h
    obtain ⟨hm, hx, hall⟩ := foldl_max_spec c r x
    subst h
    refine ⟨?_, ?_⟩
    · rcases hm with hm | hm
      · rw [hm]; exact List.mem_cons_self
      · exact List.mem_cons_of_mem _ hm
    · intro y hy
      rcases List.mem_cons.mp hy with rfl | hy
      · exact hx
      · exact hall y hy

omit [TransCmp c] in
theorem lastMaxBy_none_iff {xs : List α} : lastMaxBy c xs = none ↔ xs = [] := by
  cases xs <;> simp [lastMaxBy]

end Vlsp.Semver
