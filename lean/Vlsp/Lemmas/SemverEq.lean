/-
  `Semver.cmp a b = .eq ↔ a = b`: the derived order of `semver::Version` is antisymmetric (it is consistent with
  the derived `Eq`, build metadata included), so "equal by comparison" and "the same version" coincide.
-/
import Vlsp.Lemmas.SemverOrder

namespace Vlsp.Semver
open Std Vlsp.Text

theorem compareOn_eq {α β} [Ord β] [LawfulEqOrd β] (f : α → β) (a b : α) (h : compareOn f a b = .eq) : f a = f b := by
  unfold compareOn at h
  exact LawfulEqOrd.eq_of_compare h

instance : LawfulEqCmp (compareOn Char.toNat) where
  eq_of_compare h := by
    have := compareOn_eq Char.toNat _ _ h
    exact Char.toNat_inj.mp this

theorem cmpText_eq {a b : Text} (h : cmpText a b = .eq) : a = b := by
  unfold cmpText at h
  exact LawfulEqCmp.eq_of_compare h

theorem cmpVia_eq {α β} (f : α → β) (c : β → β → Ordering) (a b : α) : cmpVia f c a b = c (f a) (f b) := rfl

theorem cmpPreIdent_eq {a b : Text} (h : cmpPreIdent a b = .eq) : a = b := by
  unfold cmpPreIdent at h
  rw [compareLex_eq_eq] at h
  obtain ⟨_, h2⟩ := h
  rw [compareLex_eq_eq] at h2
  exact cmpText_eq h2.2

instance : LawfulEqCmp cmpPreIdent where
  eq_of_compare := cmpPreIdent_eq

/-! `splitChar` is injective: joining the pieces with the separator gives the text back -/

theorem intercalate_cons_ne (sep x : Text) (rest : List Text) (h : rest ≠ []) :
    intercalate sep (x :: rest) = x ++ sep ++ intercalate sep rest := by
  cases rest with
  | nil => exact absurd rfl h
  | cons y ys => rfl

theorem splitCharAux_ne_nil' (sep : Char) (t cur : Text) : splitCharAux sep t cur ≠ [] := by
  induction t generalizing cur with
  | nil => simp [splitCharAux]
  | cons c cs ih => unfold splitCharAux; split <;> simp [ih]

theorem intercalate_splitCharAux (sep : Char) (t cur : Text) :
    intercalate [sep] (splitCharAux sep t cur) = cur.reverse ++ t := by
  induction t generalizing cur with
  | nil => simp [splitCharAux, intercalate]
  | cons c cs ih =>
    unfold splitCharAux
    by_cases hc : (c == sep) = true
    · simp only [hc, if_true]
      rw [intercalate_cons_ne _ _ _ (splitCharAux_ne_nil' sep cs []), ih []]
      have : c = sep := by simpa using hc
      simp [this]
    · simp only [hc, Bool.false_eq_true, if_false]
      rw [ih (c :: cur)]; simp

theorem splitChar_inj (sep : Char) (a b : Text) (h : splitChar sep a = splitChar sep b) : a = b := by
  have ha := intercalate_splitCharAux sep a []
  have hb := intercalate_splitCharAux sep b []
  unfold splitChar at h
  rw [h] at ha
  simpa using ha.symm.trans hb

theorem cmpPre_eq {a b : Text} (h : cmpPre a b = .eq) : a = b := by
  unfold cmpPre at h
  rw [compareLex_eq_eq] at h
  have h2 : List.compareLex cmpPreIdent (splitChar '.' a) (splitChar '.' b) = .eq := h.2
  exact splitChar_inj '.' a b (LawfulEqCmp.eq_of_compare h2)

/-! build identifiers: numeric ones compare by value first and by written length last -/

theorem trimZeros_zero (cs : Text) : trimZeros ('0' :: cs) = trimZeros cs := by simp [trimZeros]

theorem trimZeros_nonzero (c : Char) (cs : Text) (h : c ≠ '0') : trimZeros (c :: cs) = c :: cs := by
  unfold trimZeros
  split
  · rename_i h'; simp at h'; exact absurd h'.1 h
  · rfl

theorem trimZeros_length_le (t : Text) : (trimZeros t).length ≤ t.length := by
  induction t with
  | nil => simp [trimZeros]
  | cons c cs ih =>
    by_cases hc : c = '0'
    · subst hc; rw [trimZeros_zero]; simp; omega
    · rw [trimZeros_nonzero c cs hc]; simp

/-- a text is its leading zeros followed by its trimmed form -/
theorem zeros_append_trim (t : Text) : t = List.replicate (t.length - (trimZeros t).length) '0' ++ trimZeros t := by
  induction t with
  | nil => simp [trimZeros]
  | cons c cs ih =>
    by_cases hc : c = '0'
    · subst hc
      have hl := trimZeros_length_le cs
      rw [trimZeros_zero]
      have e : ('0' :: cs).length - (trimZeros cs).length = (cs.length - (trimZeros cs).length) + 1 := by simp; omega
      rw [e, List.replicate_succ, List.cons_append, ← ih]
    · rw [trimZeros_nonzero c cs hc]; simp

theorem eq_of_trim_eq_of_length_eq (a b : Text) (ht : trimZeros a = trimZeros b) (hl : a.length = b.length) : a = b := by
  rw [zeros_append_trim a, zeros_append_trim b, ht, hl]

theorem cmpBuildIdent_eq {a b : Text} (h : cmpBuildIdent a b = .eq) : a = b := by
  unfold cmpBuildIdent at h
  rw [compareLex_eq_eq] at h
  obtain ⟨h1, h⟩ := h
  rw [compareLex_eq_eq] at h
  obtain ⟨_, h⟩ := h
  rw [compareLex_eq_eq] at h
  obtain ⟨h3, h4⟩ := h
  have hn : (!isNumericIdent a) = (!isNumericIdent b) := compareOn_eq _ _ _ h1
  have hn' : isNumericIdent a = isNumericIdent b := by
    cases ha : isNumericIdent a <;> cases hb : isNumericIdent b <;> simp_all
  have h3' := cmpText_eq (by rw [cmpVia_eq] at h3; exact h3)
  have h4' := compareOn_eq _ _ _ h4
  cases ha : isNumericIdent a with
  | true =>
    have hb : isNumericIdent b = true := by rw [← hn', ha]
    simp only [ha, hb, if_true] at h3' h4'
    exact eq_of_trim_eq_of_length_eq a b h3' h4'
  | false =>
    have hb : isNumericIdent b = false := by rw [← hn', ha]
    simpa [ha, hb] using h3'

instance : LawfulEqCmp cmpBuildIdent where
  eq_of_compare := cmpBuildIdent_eq

theorem cmpBuild_eq {a b : Text} (h : cmpBuild a b = .eq) : a = b := by
  unfold cmpBuild at h
  rw [cmpVia_eq] at h
  exact splitChar_inj '.' a b (LawfulEqCmp.eq_of_compare h)

/-- **the version order is antisymmetric** -/
theorem cmp_eq_iff_eq (a b : Version) : cmp a b = .eq ↔ a = b := by
  constructor
  · intro h
    unfold cmp at h
    rw [compareLex_eq_eq] at h
    obtain ⟨h1, h⟩ := h
    rw [compareLex_eq_eq] at h
    obtain ⟨h2, h⟩ := h
    rw [compareLex_eq_eq] at h
    obtain ⟨h3, h⟩ := h
    rw [compareLex_eq_eq] at h
    obtain ⟨h4, h5⟩ := h
    have e1 : a.major = b.major := compareOn_eq _ _ _ h1
    have e2 : a.minor = b.minor := compareOn_eq _ _ _ h2
    have e3 : a.patch = b.patch := compareOn_eq _ _ _ h3
    have e4 : a.pre = b.pre := cmpPre_eq (by rw [cmpVia_eq] at h4; exact h4)
    have e5 : a.build = b.build := cmpBuild_eq (by rw [cmpVia_eq] at h5; exact h5)
    cases a; cases b; simp_all
  · intro h; subst h; exact cmp_self a

end Vlsp.Semver
