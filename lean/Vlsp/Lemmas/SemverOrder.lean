/-
  `Semver.cmp` is an oriented, transitive comparator (a total preorder), from
  core's comparator-combinator instances.
-/
import Vlsp.Model.Semver

namespace Vlsp.Semver
open Std

instance cmpVia_refl {α β} (f : α → β) (c : β → β → Ordering) [ReflCmp c] : ReflCmp (cmpVia f c) where
  compare_self := ReflCmp.compare_self (cmp := c)

instance cmpVia_oriented {α β} (f : α → β) (c : β → β → Ordering) [OrientedCmp c] :
    OrientedCmp (cmpVia f c) where
  eq_swap := OrientedCmp.eq_swap (cmp := c)

instance cmpVia_trans {α β} (f : α → β) (c : β → β → Ordering) [TransCmp c] : TransCmp (cmpVia f c) where
  isLE_trans := TransCmp.isLE_trans (cmp := c)

instance : TransCmp cmpText := by unfold cmpText; infer_instance
instance : TransCmp cmpPreIdent := by unfold cmpPreIdent; infer_instance
instance : TransCmp cmpPre := by unfold cmpPre; infer_instance
instance : TransCmp cmpBuildIdent := by unfold cmpBuildIdent; infer_instance
instance : TransCmp cmpBuild := by unfold cmpBuild; infer_instance
instance cmp_trans : TransCmp cmp := by unfold cmp; infer_instance

theorem cmp_self (a : Version) : cmp a a = .eq := ReflCmp.compare_self
theorem cmp_swap (a b : Version) : cmp a b = (cmp b a).swap := OrientedCmp.eq_swap

theorem cmp_gt_iff_lt (a b : Version) : cmp a b = .gt ↔ cmp b a = .lt := by
  rw [cmp_swap a b]; cases cmp b a <;> simp [Ordering.swap]

theorem cmp_eq_symm {a b : Version} (h : cmp a b = .eq) : cmp b a = .eq := by
  rw [cmp_swap b a, h]; rfl

/-- `≤` in the sense of `cmp · · ≠ gt` is transitive -/
theorem le_trans' {a b c : Version} (h1 : cmp a b ≠ .gt) (h2 : cmp b c ≠ .gt) : cmp a c ≠ .gt := by
  have e1 : (cmp a b).isLE = true := by cases h : cmp a b <;> simp_all [Ordering.isLE]
  have e2 : (cmp b c).isLE = true := by cases h : cmp b c <;> simp_all [Ordering.isLE]
  have := TransCmp.isLE_trans (cmp := cmp) e1 e2
  cases h : cmp a c <;> simp_all [Ordering.isLE]

theorem eq_trans' {a b c : Version} (h1 : cmp a b = .eq) (h2 : cmp b c = .eq) : cmp a c = .eq := by
  have l1 : cmp a c ≠ .gt := le_trans' (by rw [h1]; decide) (by rw [h2]; decide)
  have l2 : cmp c a ≠ .gt := le_trans' (by rw [cmp_eq_symm h2]; decide) (by rw [cmp_eq_symm h1]; decide)
  rw [Ne, cmp_gt_iff_lt] at l2
  cases h : cmp a c with
  | eq => rfl
  | lt => exact absurd h l2
  | gt => exact absurd h l1

end Vlsp.Semver
