/-
  Invariant of the relational cache model and the row-level lemmas behind the
  C08 refinement.
-/
import Vlsp.Model.Cache

namespace Vlsp
namespace Db
open Text

/-- the declared constraints of the schema, as facts about the row lists -/
structure Inv (db : Db) : Prop where
  keysNodup : (db.pkgs.map (·.key)).Nodup          -- UNIQUE(registry_type, package_name)
  idsNodup : (db.pkgs.map (·.id)).Nodup            -- PRIMARY KEY
  idsFresh : ∀ p ∈ db.pkgs, p.id < db.nextId       -- AUTOINCREMENT
  versNodup : db.vers.Nodup                        -- UNIQUE(package_id, version)
  versFresh : ∀ r ∈ db.vers, r.1 < db.nextId       -- every child row was inserted under an existing id
  tagsFresh : ∀ r ∈ db.tags, r.1 < db.nextId
  tagsNodup : (db.tags.map fun r => (r.1, r.2.1)).Nodup   -- UNIQUE(package_id, tag_name)

theorem inv_empty : Inv Db.empty := by
  constructor <;> simp [Db.empty]

def versOfId (db : Db) (id : Nat) : List Text := (db.vers.filter fun r => r.1 == id).map (·.2)
def tagsOfId (db : Db) (id : Nat) : List (Text × Text) := (db.tags.filter fun r => r.1 == id).map (·.2)

theorem versionsOf_eq (db : Db) (k : Key) :
    db.versionsOf k = match db.findPkg k with | none => [] | some p => db.versOfId p.id := rfl

theorem tagsOf_eq (db : Db) (k : Key) :
    db.tagsOf k = match db.findPkg k with | none => [] | some p => db.tagsOfId p.id := rfl

theorem eq_of_nodup_map {α β} {f : α → β} {l : List α} (hn : (l.map f).Nodup) {a b : α}
    (ha : a ∈ l) (hb : b ∈ l) (h : f a = f b) : a = b := by
  induction l with
  | nil => cases ha
  | cons x xs ih =>
    simp only [List.map_cons, List.nodup_cons] at hn
    rcases List.mem_cons.mp ha with rfl | ha'
    · rcases List.mem_cons.mp hb with rfl | hb'
      · rfl
      · exact absurd (h ▸ List.mem_map_of_mem hb') hn.1
    · rcases List.mem_cons.mp hb with rfl | hb'
      · exact absurd (h ▸ List.mem_map_of_mem ha') hn.1
      · exact ih hn.2 ha' hb'

/-! ### findPkg -/

theorem findPkg_some_mem {db : Db} {k : Key} {p : Pkg} (h : db.findPkg k = some p) : p ∈ db.pkgs ∧ p.key = k := by
  unfold findPkg at h
  have := List.find?_some h
  exact ⟨List.mem_of_find?_eq_some h, by simpa using this⟩

theorem findPkg_none_iff {db : Db} {k : Key} : db.findPkg k = none ↔ ∀ p ∈ db.pkgs, p.key ≠ k := by
  unfold findPkg
  rw [List.find?_eq_none]
  constructor
  · intro h p hp; simpa using h p hp
  · intro h p hp; simpa using h p hp

theorem findPkg_of_mem {db : Db} (hi : Inv db) {p : Pkg} (hp : p ∈ db.pkgs) : db.findPkg p.key = some p := by
  unfold findPkg
  have hk := hi.keysNodup
  generalize db.pkgs = ps at hp hk
  induction ps with
  | nil => cases hp
  | cons q qs ih =>
    simp only [List.map_cons, List.nodup_cons] at hk
    rcases List.mem_cons.mp hp with rfl | hq
    · simp [List.find?_cons]
    · have hne : q.key ≠ p.key := by
        intro he
        exact hk.1 (he ▸ List.mem_map_of_mem hq)
      have : (q.key == p.key) = false := by simpa using hne
      rw [List.find?_cons, this]
      exact ih hq hk.2

theorem findPkg_insertPkg (db : Db) (k k' : Key) (now : Int) (fs : Option Int) (nf : Bool) :
    (db.insertPkg k now fs nf).findPkg k' =
      match db.findPkg k' with
      | some p => some p
      | none => if k = k' then some ⟨db.nextId, k, now, fs, nf⟩ else none := by
  unfold findPkg insertPkg
  simp only [List.find?_append]
  cases h : List.find? (fun p => p.key == k') db.pkgs with
  | some p => simp
  | none =>
    simp only [Option.none_or, List.find?_cons, List.find?_nil]
    by_cases hk : k = k'
    · simp [hk]
    · have : (k == k') = false := by simpa using hk
      simp [hk, this]

theorem findPkg_updatePkgs (db : Db) (k k' : Key) (f : Pkg → Pkg) (hf : ∀ p, (f p).key = p.key) :
    (db.updatePkgs k f).findPkg k' = (db.findPkg k').map fun p => if p.key == k then f p else p := by
  unfold findPkg updatePkgs
  simp only
  induction db.pkgs with
  | nil => rfl
  | cons q qs ih =>
    simp only [List.map_cons, List.find?_cons]
    have hkey : (if q.key == k then f q else q).key = q.key := by
      split
      · exact hf q
      · rfl
    rw [hkey]
    cases hq : (q.key == k')
    · simp only [Bool.false_eq_true, if_false]; exact ih
    · simp

/-! ### invariant preservation of the row-level statements -/

theorem inv_insertPkg {db : Db} (hi : Inv db) (k : Key) (now : Int) (fs : Option Int) (nf : Bool)
    (hnew : db.findPkg k = none) : Inv (db.insertPkg k now fs nf) := by
  have hk := findPkg_none_iff.mp hnew
  constructor
  · simp only [insertPkg, List.map_append, List.map_cons, List.map_nil]
    rw [List.nodup_append]
    refine ⟨hi.keysNodup, by simp, ?_⟩
    intro a ha b hb
    simp only [List.mem_singleton] at hb
    subst hb
    obtain ⟨p, hp, rfl⟩ := List.mem_map.mp ha
    exact hk p hp
  · simp only [insertPkg, List.map_append, List.map_cons, List.map_nil]
    rw [List.nodup_append]
    refine ⟨hi.idsNodup, by simp, ?_⟩
    intro a ha b hb
    simp only [List.mem_singleton] at hb
    subst hb
    obtain ⟨p, hp, rfl⟩ := List.mem_map.mp ha
    exact Nat.ne_of_lt (hi.idsFresh p hp)
  · intro p hp
    simp only [insertPkg, List.mem_append, List.mem_singleton] at hp ⊢
    rcases hp with hp | rfl
    · exact Nat.lt_succ_of_lt (hi.idsFresh p hp)
    · exact Nat.lt_succ_self _
  · exact hi.versNodup
  · intro r hr; exact Nat.lt_succ_of_lt (hi.versFresh r hr)
  · intro r hr; exact Nat.lt_succ_of_lt (hi.tagsFresh r hr)
  · exact hi.tagsNodup

theorem inv_updatePkgs {db : Db} (hi : Inv db) (k : Key) (f : Pkg → Pkg)
    (hf : ∀ p, (f p).key = p.key ∧ (f p).id = p.id) : Inv (db.updatePkgs k f) := by
  have hmapk : (db.updatePkgs k f).pkgs.map (·.key) = db.pkgs.map (·.key) := by
    simp only [updatePkgs, List.map_map]
    apply List.map_congr_left
    intro p _
    simp only [Function.comp]
    split
    · exact (hf p).1
    · rfl
  have hmapi : (db.updatePkgs k f).pkgs.map (·.id) = db.pkgs.map (·.id) := by
    simp only [updatePkgs, List.map_map]
    apply List.map_congr_left
    intro p _
    simp only [Function.comp]
    split
    · exact (hf p).2
    · rfl
  constructor
  · rw [hmapk]; exact hi.keysNodup
  · rw [hmapi]; exact hi.idsNodup
  · intro p hp
    simp only [updatePkgs, List.mem_map] at hp
    obtain ⟨q, hq, rfl⟩ := hp
    have := hi.idsFresh q hq
    split
    · rw [(hf q).2]; exact this
    · exact this
  · exact hi.versNodup
  · exact hi.versFresh
  · exact hi.tagsFresh
  · exact hi.tagsNodup

theorem inv_insertVersionIgnore {db : Db} (hi : Inv db) (pid : Nat) (v : Text) (hp : pid < db.nextId) :
    Inv (db.stmtInsertVersionIgnore pid v) := by
  unfold stmtInsertVersionIgnore
  split
  · exact hi
  · rename_i hc
    have hnm : (pid, v) ∉ db.vers := by simpa using hc
    constructor
    · exact hi.keysNodup
    · exact hi.idsNodup
    · exact hi.idsFresh
    · simp only
      rw [List.nodup_append]
      refine ⟨hi.versNodup, by simp, ?_⟩
      intro a ha b hb
      simp only [List.mem_singleton] at hb
      subst hb
      intro he; exact hnm (he ▸ ha)
    · intro r hr
      simp only [List.mem_append, List.mem_singleton] at hr
      rcases hr with hr | rfl
      · exact hi.versFresh r hr
      · exact hp
    · exact hi.tagsFresh
    · exact hi.tagsNodup

/-! ### version rows -/

theorem mem_versOfId_insert (db : Db) (pid id : Nat) (v w : Text) :
    w ∈ (db.stmtInsertVersionIgnore pid v).versOfId id ↔ w ∈ db.versOfId id ∨ (id = pid ∧ w = v) := by
  unfold stmtInsertVersionIgnore versOfId
  split
  · rename_i hc
    have hm : (pid, v) ∈ db.vers := by simpa using hc
    constructor
    · exact Or.inl
    · rintro (h | ⟨rfl, rfl⟩)
      · exact h
      · simp only [List.mem_map, List.mem_filter]
        exact ⟨(id, w), ⟨hm, by simp⟩, rfl⟩
  · simp only [List.filter_append, List.map_append, List.mem_append, List.mem_map, List.mem_filter,
      List.mem_singleton]
    constructor
    · rintro (h | ⟨r, ⟨rfl, hr⟩, rfl⟩)
      · exact Or.inl h
      · right; simp at hr; exact ⟨hr.symm, rfl⟩
    · rintro (h | ⟨rfl, rfl⟩)
      · exact Or.inl h
      · right; exact ⟨(id, w), ⟨rfl, by simp⟩, rfl⟩

theorem foldl_insert_pkgs (db : Db) (pid : Nat) (vs : List Text) :
    (vs.foldl (fun d v => d.stmtInsertVersionIgnore pid v) db).pkgs = db.pkgs ∧
    (vs.foldl (fun d v => d.stmtInsertVersionIgnore pid v) db).tags = db.tags ∧
    (vs.foldl (fun d v => d.stmtInsertVersionIgnore pid v) db).nextId = db.nextId := by
  induction vs generalizing db with
  | nil => exact ⟨rfl, rfl, rfl⟩
  | cons v vs ih =>
    simp only [List.foldl_cons]
    obtain ⟨a, b, c⟩ := ih (db.stmtInsertVersionIgnore pid v)
    have : (db.stmtInsertVersionIgnore pid v).pkgs = db.pkgs ∧ (db.stmtInsertVersionIgnore pid v).tags = db.tags ∧
        (db.stmtInsertVersionIgnore pid v).nextId = db.nextId := by
      unfold stmtInsertVersionIgnore; split <;> exact ⟨rfl, rfl, rfl⟩
    exact ⟨a.trans this.1, b.trans this.2.1, c.trans this.2.2⟩

theorem mem_versOfId_foldl (db : Db) (pid id : Nat) (vs : List Text) (w : Text) :
    w ∈ (vs.foldl (fun d v => d.stmtInsertVersionIgnore pid v) db).versOfId id ↔
      w ∈ db.versOfId id ∨ (id = pid ∧ w ∈ vs) := by
  induction vs generalizing db with
  | nil => simp
  | cons v vs ih =>
    simp only [List.foldl_cons]
    rw [ih, mem_versOfId_insert]
    simp only [List.mem_cons]
    constructor
    · rintro ((h | ⟨h1, h2⟩) | ⟨h1, h2⟩)
      · exact Or.inl h
      · exact Or.inr ⟨h1, Or.inl h2⟩
      · exact Or.inr ⟨h1, Or.inr h2⟩
    · rintro (h | ⟨h1, h2 | h2⟩)
      · exact Or.inl (Or.inl h)
      · exact Or.inl (Or.inr ⟨h1, h2⟩)
      · exact Or.inr ⟨h1, h2⟩

theorem inv_foldl_insert {db : Db} (hi : Inv db) (pid : Nat) (vs : List Text) (hp : pid < db.nextId) :
    Inv (vs.foldl (fun d v => d.stmtInsertVersionIgnore pid v) db) := by
  induction vs generalizing db with
  | nil => exact hi
  | cons v vs ih =>
    simp only [List.foldl_cons]
    apply ih (inv_insertVersionIgnore hi pid v hp)
    have : (db.stmtInsertVersionIgnore pid v).nextId = db.nextId := by
      unfold stmtInsertVersionIgnore; split <;> rfl
    rw [this]; exact hp

theorem versOfId_nodup {db : Db} (hi : Inv db) (id : Nat) : (db.versOfId id).Nodup := by
  unfold versOfId
  have hn := hi.versNodup
  generalize db.vers = rows at hn
  induction rows with
  | nil => simp
  | cons r rs ih =>
    simp only [List.nodup_cons] at hn
    simp only [List.filter_cons]
    split
    · rename_i hr
      simp only [List.map_cons, List.nodup_cons]
      refine ⟨?_, ih hn.2⟩
      intro hm
      obtain ⟨r', hr', he⟩ := List.mem_map.mp hm
      have hr'' := List.mem_filter.mp hr'
      have : r' = r := by
        obtain ⟨a, b⟩ := r; obtain ⟨a', b'⟩ := r'
        simp only [beq_iff_eq] at hr hr''
        simp only at he
        rw [hr, ← hr''.2, he]
      exact hn.1 (this ▸ hr''.1)
    · exact ih hn.2

theorem versOfId_fresh {db : Db} (hi : Inv db) {id : Nat} (h : db.nextId ≤ id) : db.versOfId id = [] := by
  unfold versOfId
  rw [List.map_eq_nil_iff, List.filter_eq_nil_iff]
  intro r hr
  have := hi.versFresh r hr
  simp only [beq_iff_eq]
  omega

end Db
end Vlsp
