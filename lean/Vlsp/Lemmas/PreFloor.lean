/-
  The prerelease of a strictly parsed version is never below "0" (the least prerelease node-semver's
  desugaring uses as a floor: `<2.0.0-0`).  For an arbitrary `Text` this is false ("." splits into two
  empty identifiers, which compare below "0"), so it is proved from `parseStrict`.
-/
import Vlsp.Lemmas.SemverRoundTrip
import Vlsp.Lemmas.SemverOrder

namespace Vlsp.Semver
open Vlsp.Text

/-- `pre` is a release (empty) or a prerelease that is not below "0" -/
def PreFloor (pre : Text) : Prop := pre = [] ∨ cmpPre pre ['0'] ≠ .lt

theorem identifierAux_prefix (isPre : Bool) (fuel : Nat) (input acc id rest : Text)
    (h : identifierAux isPre fuel input acc = some (id, rest)) : ∃ tail, id = acc ++ tail := by
  induction fuel generalizing input acc with
  | zero => simp [identifierAux] at h
  | succ f ih =>
    unfold identifierAux at h
    simp only at h
    split at h
    · split at h
      · simp only [Option.some.injEq, Prod.mk.injEq] at h
        rename_i hacc
        have : acc = [] := by simpa using (Bool.and_eq_true _ _ |>.mp hacc).1
        exact ⟨[], by rw [← h.1, this]; rfl⟩
      · cases h
    · split at h
      · cases h
      · split at h
        · obtain ⟨tail, ht⟩ := ih _ _ h
          exact ⟨(spanP identChar input).1 ++ ['.'] ++ tail, by rw [ht]; simp⟩
        · simp only [Option.some.injEq, Prod.mk.injEq] at h
          exact ⟨(spanP identChar input).1, h.1.symm⟩

/-- shape of a non-empty identifier list parsed from the start: a non-empty first segment of identifier
    characters, without a leading zero if numeric (prerelease), followed by nothing or by `.…` -/
theorem identifier_first (input id rest : Text) (h : identifier true input = some (id, rest)) (hne : id ≠ []) :
    ∃ seg more, id = seg ++ more ∧ seg ≠ [] ∧ seg.all identChar = true ∧
      (more = [] ∨ ∃ m, more = '.' :: m) ∧
      ¬ (seg.length > 1 ∧ seg.all isAsciiDigit = true ∧ startsWith seg ['0'] = true) := by
  unfold identifier at h
  unfold identifierAux at h
  simp only at h
  have hall := spanP_all identChar input
  split at h
  · split at h
    · simp only [Option.some.injEq, Prod.mk.injEq] at h
      exact absurd h.1.symm hne
    · cases h
  · rename_i hse
    have hseg : (spanP identChar input).1 ≠ [] := by
      intro he; apply hse; rw [he]; rfl
    split at h
    · cases h
    · rename_i hlz
      have hlz' : ¬ ((spanP identChar input).1.length > 1 ∧ (spanP identChar input).1.all isAsciiDigit = true ∧
          startsWith (spanP identChar input).1 ['0'] = true) := by
        intro ⟨a, b, c⟩
        apply hlz
        simp only [Bool.true_and, Bool.and_eq_true, decide_eq_true_eq]
        exact ⟨⟨a, b⟩, c⟩
      split at h
      · obtain ⟨tail, ht⟩ := identifierAux_prefix _ _ _ _ _ _ h
        refine ⟨(spanP identChar input).1, '.' :: tail, ?_, hseg, hall, Or.inr ⟨tail, rfl⟩, hlz'⟩
        rw [ht]; simp
      · simp only [Option.some.injEq, Prod.mk.injEq] at h
        refine ⟨(spanP identChar input).1, [], ?_, hseg, hall, Or.inl rfl, hlz'⟩
        rw [← h.1]; simp

theorem splitCharAux_noSep (sep : Char) (seg t cur : Text) (h : ∀ c ∈ seg, (c == sep) = false) :
    splitCharAux sep (seg ++ t) cur = splitCharAux sep t (seg.reverse ++ cur) := by
  induction seg generalizing cur with
  | nil => rfl
  | cons c cs ih =>
    have hc := h c (List.mem_cons_self ..)
    simp only [List.cons_append, splitCharAux, hc, Bool.false_eq_true, if_false]
    rw [ih (c :: cur) (fun x hx => h x (List.mem_cons_of_mem _ hx))]
    simp

theorem identChar_ne_dot (c : Char) (h : identChar c = true) : (c == '.') = false := by
  cases hc : c == '.' with
  | false => rfl
  | true =>
    have : c = '.' := by simpa using hc
    subst this
    exact absurd h (by decide)

theorem splitChar_first (seg more : Text) (hs : seg.all identChar = true) (hm : more = [] ∨ ∃ m, more = '.' :: m) :
    ∃ rest, splitChar '.' (seg ++ more) = seg :: rest ∧ (more = [] → rest = []) := by
  have hno : ∀ c ∈ seg, (c == '.') = false := fun c hc => identChar_ne_dot c (List.all_eq_true.mp hs c hc)
  unfold splitChar
  rw [splitCharAux_noSep '.' seg more [] hno]
  rcases hm with rfl | ⟨m, rfl⟩
  · exact ⟨[], by simp [splitCharAux], fun _ => rfl⟩
  · refine ⟨splitCharAux '.' m [], ?_, fun h => by cases h⟩
    simp [splitCharAux]

theorem digit_toNat_ge (d : Char) (h : isAsciiDigit d = true) : 48 ≤ d.toNat := by
  unfold isAsciiDigit at h
  simp only [Bool.and_eq_true, decide_eq_true_eq] at h
  have h1 : '0' ≤ d := h.1
  have h2 : ('0' : Char).val ≤ d.val := h1
  have h3 : ('0' : Char).val.toNat ≤ d.val.toNat := UInt32.le_iff_toNat_le.mp h2
  exact h3

/-- a well-formed first identifier is never below "0" -/
theorem cmpPreIdent_zero_not_lt (seg : Text) (hne : seg ≠ [])
    (hlz : ¬ (seg.length > 1 ∧ seg.all isAsciiDigit = true ∧ startsWith seg ['0'] = true)) :
    cmpPreIdent seg ['0'] ≠ .lt := by
  unfold cmpPreIdent compareLex compareOn
  have hz : isNumericIdent ['0'] = true := by decide
  cases hn : isNumericIdent seg with
  | false =>
    simp only [hn, hz, Bool.not_false, Bool.not_true]
    have : compare true false = Ordering.gt := by decide
    rw [this]; simp [Ordering.then]
  | true =>
    simp only [hn, hz, Bool.not_true, if_true]
    have e1 : compare false false = Ordering.eq := by decide
    rw [e1]
    simp only [Ordering.then]
    match seg, hne, hn with
    | [d], _, hn =>
      have hd : isAsciiDigit d = true := by simpa [isNumericIdent] using hn
      have hge := digit_toNat_ge d hd
      have e2 : compare [d].length (['0'] : Text).length = Ordering.eq := by
        rw [Nat.compare_eq_eq]; rfl
      rw [e2]
      simp only [cmpText, List.compareLex, compareOn]
      have : '0'.toNat = 48 := by decide
      rw [this]
      intro hlt
      have hc : compare d.toNat 48 = .lt := by
        cases hcmp : compare d.toNat 48 <;> simp [hcmp] at hlt ⊢
      rw [Nat.compare_eq_lt] at hc
      omega
    | d :: e :: more, _, _ =>
      have e2 : compare (d :: e :: more).length ['0'].length = Ordering.gt := by
        rw [Nat.compare_eq_gt]; simp
      rw [e2]
      simp

theorem preFloor_of_identifier (input id rest : Text) (h : identifier true input = some (id, rest)) : PreFloor id := by
  by_cases hne : id = []
  · exact Or.inl hne
  · right
    obtain ⟨seg, more, hid, hseg, hall, hmore, hlz⟩ := identifier_first input id rest h hne
    obtain ⟨rs, hsplit, hrs⟩ := splitChar_first seg more hall hmore
    have hi : cmpPreIdent seg ['0'] ≠ .lt := cmpPreIdent_zero_not_lt seg hseg hlz
    unfold cmpPre compareLex compareOn cmpVia
    simp only
    have e0 : id.isEmpty = false := by cases id with | nil => exact absurd rfl hne | cons _ _ => rfl
    have e1 : (['0'] : Text).isEmpty = false := rfl
    rw [e0, e1]
    have e2 : compare false false = Ordering.eq := by decide
    rw [e2]
    simp only [Ordering.then]
    have e3 : splitChar '.' ['0'] = [['0']] := by decide
    rw [hid, hsplit, e3]
    simp only [List.compareLex]
    cases hc : cmpPreIdent seg ['0'] with
    | lt => exact absurd hc hi
    | gt => simp
    | eq =>
      cases rs with
      | nil => simp [List.compareLex]
      | cons r rr => simp [List.compareLex]

theorem preStep_floor (t pre r : Text) (h : preStep t = some (pre, r)) : PreFloor pre := by
  unfold preStep at h
  split at h
  · rename_i t'
    cases hid : identifier true t' with
    | none => simp [hid] at h
    | some pr =>
      obtain ⟨p, q⟩ := pr
      simp only [hid] at h
      split at h
      · cases h
      · simp only [Option.some.injEq, Prod.mk.injEq] at h
        rw [← h.1]
        exact preFloor_of_identifier t' p q hid
  · simp only [Option.some.injEq, Prod.mk.injEq] at h
    exact Or.inl h.1.symm

theorem tailStep_floor (a b c : Nat) (t : Text) (v : Version) (h : tailStep a b c t = some v) : PreFloor v.pre := by
  unfold tailStep at h
  split at h
  · simp only [Option.some.injEq] at h; subst h; exact Or.inl rfl
  · cases hp : preStep t with
    | none => simp [hp] at h
    | some pr =>
      obtain ⟨pre, t1⟩ := pr
      simp only [hp] at h
      cases hb : buildStep t1 with
      | none => simp [hb] at h
      | some br =>
        obtain ⟨bd, t2⟩ := br
        simp only [hb] at h
        split at h
        · simp only [Option.some.injEq] at h; subst h
          exact preStep_floor t pre t1 hp
        · cases h

/-- **the prerelease of every strictly parsed version is a release or at least "0"** -/
theorem parseStrict_floor (t : Text) (v : Version) (h : parseStrict t = some v) : PreFloor v.pre := by
  unfold parseStrict at h
  repeat (split at h; · cases h)
  exact tailStep_floor _ _ _ _ v h

end Vlsp.Semver
