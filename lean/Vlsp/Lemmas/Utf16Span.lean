/-
  `PackageInfo::utf16_span` on a document that splits at the reported place: the column is the UTF-16 length of the
  line's text before the range, the width the UTF-16 length of the range's text.
-/
import Vlsp.Model.Pos

namespace Vlsp.Pos
open Vlsp Vlsp.Text Vlsp.Slice

theorem any_nl_false (t : Text) (h : ∀ c ∈ t, c ≠ '\n') : t.any (· == '\n') = false := by
  induction t with
  | nil => rfl
  | cons c cs ih =>
    have hc : (c == '\n') = false := by simpa using h c (by simp)
    simp only [List.any_cons, hc, Bool.false_or]
    exact ih (fun x hx => h x (by simp [hx]))

/-- **the wire position is counted in UTF-16 units of the line**: if the document is `before ++ lp ++ mid ++ post`, the
    reported column is the byte length of `lp` (the text of the line before the range, no line break in it) and the
    offsets delimit `mid`, then the span is `(utf16 length of lp, utf16 length of mid)` -/
theorem utf16Span_spec (before lp mid post : Text) (column so eo : Nat)
    (hcol : column = byteLen lp) (hso : so = byteLen before + byteLen lp) (heo : eo = so + byteLen mid)
    (hnl : ∀ c ∈ lp, c ≠ '\n') :
    utf16Span (before ++ lp ++ mid ++ post) column so eo = some (utf16Length lp, utf16Length mid) := by
  unfold utf16Span
  have hle : column ≤ so := by omega
  simp only [hle, if_true]
  have h1 : slice (before ++ lp ++ mid ++ post) (so - column) so = some lp := by
    have e : before ++ lp ++ mid ++ post = before ++ lp ++ (mid ++ post) := by simp
    have ea : so - column = byteLen before := by omega
    have eb : so = byteLen before + byteLen lp := hso
    rw [e, ea, eb]; exact slice_append before lp (mid ++ post)
  have h2 : slice (before ++ lp ++ mid ++ post) so eo = some mid := by
    have ea : so = byteLen (before ++ lp) := by rw [byteLen_append]; exact hso
    have eb : eo = byteLen (before ++ lp) + byteLen mid := by rw [← ea]; exact heo
    rw [ea, eb]; exact slice_append (before ++ lp) mid post
  simp only [h1, h2, any_nl_false lp hnl, Bool.false_eq_true, if_false]

end Vlsp.Pos
