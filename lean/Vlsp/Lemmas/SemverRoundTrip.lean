/-
  `parseStrict t = some v → toText v = t`: a strict SemVer text is the canonical spelling of the version it
  denotes (no leading zeros, identifiers verbatim), hence `parseStrict` is injective.
-/
import Vlsp.Model.Semver

namespace Vlsp.Semver
open Vlsp.Text

/-! ### decimal digits -/

theorem natDigitsAux_spec (n : Nat) : ∀ (fuel : Nat) (acc : Text), n < fuel →
    natDigitsAux fuel n acc = natDigitsAux (n + 1) n [] ++ acc := by
  induction n using Nat.strongRecOn with
  | _ n ih =>
    intro fuel acc hf
    cases fuel with
    | zero => omega
    | succ f =>
      by_cases h10 : n < 10
      · simp [natDigitsAux, h10]
      · have hlt : n / 10 < n := Nat.div_lt_self (by omega) (by omega)
        simp only [natDigitsAux, h10, if_false]
        rw [ih (n / 10) hlt f _ (by omega), ih (n / 10) hlt n _ hlt]
        simp

theorem natToText_small (n : Nat) (h : n < 10) : natToText n = [Char.ofNat (48 + n % 10)] := by
  simp [natToText, natDigitsAux, h]

theorem natToText_big (n : Nat) (h : 10 ≤ n) : natToText n = natToText (n / 10) ++ [Char.ofNat (48 + n % 10)] := by
  have h10 : ¬ n < 10 := by omega
  have hlt : n / 10 < n := Nat.div_lt_self (by omega) (by omega)
  show natDigitsAux (n + 1) n [] = natDigitsAux (n / 10 + 1) (n / 10) [] ++ [Char.ofNat (48 + n % 10)]
  conv => lhs; unfold natDigitsAux
  simp only [h10, if_false]
  exact natDigitsAux_spec (n / 10) n _ hlt

theorem digitsVal_snoc (ds : Text) (d : Char) (acc : Nat) :
    digitsVal (ds ++ [d]) acc = digitsVal ds acc * 10 + digitVal d := by
  induction ds generalizing acc with
  | nil => simp [digitsVal]
  | cons c cs ih => simp [digitsVal, ih]

theorem digitsVal_ge (ds : Text) (acc : Nat) : acc ≤ digitsVal ds acc := by
  induction ds generalizing acc with
  | nil => simp [digitsVal]
  | cons c cs ih => simp only [digitsVal]; exact Nat.le_trans (by omega) (ih _)

theorem digit_char (d : Char) (h : isAsciiDigit d = true) : digitVal d < 10 ∧ Char.ofNat (48 + digitVal d) = d := by
  unfold isAsciiDigit at h
  simp only [Bool.and_eq_true, decide_eq_true_eq] at h
  have h1 : 48 ≤ d.toNat := UInt32.le_iff_toNat_le.mp (Char.le_def.mp h.1)
  have h2 : d.toNat ≤ 57 := UInt32.le_iff_toNat_le.mp (Char.le_def.mp h.2)
  unfold digitVal
  refine ⟨by omega, ?_⟩
  have : 48 + (d.toNat - 48) = d.toNat := by omega
  rw [this]; exact Char.ofNat_toNat d

/-- the digits of a number written without a leading zero are the number's decimal spelling -/
theorem natToText_digitsVal_aux (k : Nat) : ∀ (ds : Text), ds.length = k → ds ≠ [] → ds.all isAsciiDigit = true →
    (ds = ['0'] ∨ ds.head? ≠ some '0') → natToText (digitsVal ds 0) = ds := by
  induction k with
  | zero => intro ds hl hne; cases ds <;> simp_all
  | succ k ih =>
    intro ds hl hne hd hz
    have hsplit := List.dropLast_concat_getLast hne
    generalize hi : ds.dropLast = init at hsplit
    generalize hdd' : ds.getLast hne = d at hsplit
    subst hsplit
    have hdd : isAsciiDigit d = true := List.all_eq_true.mp hd d (by simp)
    obtain ⟨hlt, hch⟩ := digit_char d hdd
    rw [digitsVal_snoc]
    cases init with
    | nil =>
      simp only [digitsVal, Nat.zero_mul, Nat.zero_add, List.nil_append]
      rw [natToText_small _ hlt, Nat.mod_eq_of_lt hlt, hch]
    | cons c cs =>
      have hinit_d : (c :: cs).all isAsciiDigit = true := by
        rw [List.all_append] at hd; exact (Bool.and_eq_true _ _ |>.mp hd).1
      have hc0 : c ≠ '0' := by
        rcases hz with hz | hz
        · exfalso; have := congrArg List.length hz; simp at this
        · simpa using hz
      have hcd : isAsciiDigit c = true := List.all_eq_true.mp hinit_d c (by simp)
      have hpos : 1 ≤ digitsVal (c :: cs) 0 := by
        simp only [digitsVal, Nat.zero_mul, Nat.zero_add]
        have hv : 1 ≤ digitVal c := by
          obtain ⟨_, hcc⟩ := digit_char c hcd
          by_cases h0 : digitVal c = 0
          · rw [h0] at hcc; exact absurd hcc.symm (by simpa using hc0)
          · omega
        exact Nat.le_trans hv (digitsVal_ge cs _)
      have hih := ih (c :: cs) (by simp at hl ⊢; omega) (by simp) hinit_d (Or.inr (by simpa using hc0))
      have hbig : 10 ≤ digitsVal (c :: cs) 0 * 10 + digitVal d := by omega
      rw [natToText_big _ hbig]
      have e1 : (digitsVal (c :: cs) 0 * 10 + digitVal d) / 10 = digitsVal (c :: cs) 0 := by omega
      have e2 : (digitsVal (c :: cs) 0 * 10 + digitVal d) % 10 = digitVal d := by omega
      rw [e1, e2, hih, hch]

/-- the digits of a number written without a leading zero are the number's decimal spelling -/
theorem natToText_digitsVal (ds : Text) (hne : ds ≠ []) (hd : ds.all isAsciiDigit = true)
    (hz : ds = ['0'] ∨ ds.head? ≠ some '0') : natToText (digitsVal ds 0) = ds :=
  natToText_digitsVal_aux ds.length ds rfl hne hd hz

/-! ### the scanners return a split of their input -/

theorem spanP_append (p : Char → Bool) (t : Text) : (spanP p t).1 ++ (spanP p t).2 = t := by
  induction t with
  | nil => rfl
  | cons c cs ih =>
    unfold spanP
    split
    · simp [ih]
    · rfl

theorem spanP_all (p : Char → Bool) (t : Text) : (spanP p t).1.all p = true := by
  induction t with
  | nil => rfl
  | cons c cs ih =>
    unfold spanP
    split
    · rename_i h; simp [h]; simpa using ih
    · rfl

theorem numericIdent_spec (t : Text) (n : Nat) (rest : Text) (h : numericIdent t = some (n, rest)) :
    t = natToText n ++ rest := by
  unfold numericIdent at h
  have happ := spanP_append isAsciiDigit t
  have hall := spanP_all isAsciiDigit t
  cases hs : (spanP isAsciiDigit t).1 with
  | nil => simp [hs] at h
  | cons d more =>
    simp only [hs] at h hall
    split at h
    · cases h
    · rename_i hz
      split at h
      · simp only [Option.some.injEq, Prod.mk.injEq] at h
        obtain ⟨hn, hr⟩ := h
        have hzz : (d :: more) = ['0'] ∨ (d :: more).head? ≠ some '0' := by
          by_cases hd0 : d = '0'
          · left
            subst hd0
            simp only [beq_self_eq_true, Bool.true_and, Bool.not_eq_true', Bool.not_eq_false] at hz
            have : more = [] := by simpa using hz
            rw [this]
          · right; simpa using hd0
        have := natToText_digitsVal (d :: more) (by simp) hall hzz
        rw [← hn, this, ← hs, ← hr]; exact happ.symm
      · cases h

theorem identifierAux_spec (isPre : Bool) (fuel : Nat) (input acc id rest : Text)
    (h : identifierAux isPre fuel input acc = some (id, rest)) : acc ++ input = id ++ rest := by
  induction fuel generalizing input acc with
  | zero => simp [identifierAux] at h
  | succ f ih =>
    unfold identifierAux at h
    have happ := spanP_append identChar input
    simp only at h
    split at h
    · split at h
      · simp only [Option.some.injEq, Prod.mk.injEq] at h
        obtain ⟨h1, h2⟩ := h
        rename_i hacc
        have : acc = [] := by simpa using (Bool.and_eq_true _ _ |>.mp hacc).1
        rw [← h1, ← h2, this]
      · cases h
    · split at h
      · cases h
      · split at h
        · rename_i rest' hr
          have := ih rest' (acc ++ (spanP identChar input).1 ++ ['.']) h
          have e : input = (spanP identChar input).1 ++ '.' :: rest' := by rw [← hr]; exact happ.symm
          rw [← this]; conv => lhs; rw [e]
          simp
        · simp only [Option.some.injEq, Prod.mk.injEq] at h
          obtain ⟨h1, h2⟩ := h
          rw [← h1, ← h2]; conv => lhs; rw [← happ]
          simp

theorem identifier_spec (isPre : Bool) (input id rest : Text) (h : identifier isPre input = some (id, rest)) :
    input = id ++ rest := by
  have := identifierAux_spec isPre _ input [] id rest h
  simpa using this

end Vlsp.Semver

namespace Vlsp.Semver
open Vlsp.Text

theorem expectDot_spec (t r : Text) (h : expectDot t = some r) : t = '.' :: r := by
  unfold expectDot at h
  split at h
  · simp only [Option.some.injEq] at h; subst h; rfl
  · cases h

theorem preStep_spec (t pre r : Text) (h : preStep t = some (pre, r)) :
    t = (if pre.isEmpty then [] else '-' :: pre) ++ r := by
  unfold preStep at h
  split at h
  · rename_i t'
    cases hid : identifier true t' with
    | none => simp [hid] at h
    | some pr =>
      obtain ⟨p, q⟩ := pr
      simp only [hid] at h
      split at h
      · cases h
      · rename_i hpe
        simp only [Option.some.injEq, Prod.mk.injEq] at h
        obtain ⟨h1, h2⟩ := h
        subst h1; subst h2
        have hpe' : p.isEmpty = false := by simpa using hpe
        simp [hpe', identifier_spec true t' p q hid]
  · simp only [Option.some.injEq, Prod.mk.injEq] at h
    obtain ⟨h1, h2⟩ := h
    subst h1; subst h2; simp

theorem buildStep_spec (t b r : Text) (h : buildStep t = some (b, r)) :
    t = (if b.isEmpty then [] else '+' :: b) ++ r := by
  unfold buildStep at h
  split at h
  · rename_i t'
    cases hid : identifier false t' with
    | none => simp [hid] at h
    | some pr =>
      obtain ⟨p, q⟩ := pr
      simp only [hid] at h
      split at h
      · cases h
      · rename_i hpe
        simp only [Option.some.injEq, Prod.mk.injEq] at h
        obtain ⟨h1, h2⟩ := h
        subst h1; subst h2
        have hpe' : p.isEmpty = false := by simpa using hpe
        simp [hpe', identifier_spec false t' p q hid]
  · simp only [Option.some.injEq, Prod.mk.injEq] at h
    obtain ⟨h1, h2⟩ := h
    subst h1; subst h2; simp

theorem tailStep_spec (major minor patch : Nat) (t : Text) (v : Version) (h : tailStep major minor patch t = some v) :
    v.major = major ∧ v.minor = minor ∧ v.patch = patch ∧
    t = (if v.pre.isEmpty then [] else '-' :: v.pre) ++ (if v.build.isEmpty then [] else '+' :: v.build) := by
  unfold tailStep at h
  split at h
  · rename_i he
    simp only [Option.some.injEq] at h; subst h
    have : t = [] := by simpa using he
    simp [this]
  · cases hp : preStep t with
    | none => simp [hp] at h
    | some pr =>
      obtain ⟨pre, t4⟩ := pr
      simp only [hp] at h
      cases hb : buildStep t4 with
      | none => simp [hb] at h
      | some br =>
        obtain ⟨build, t5⟩ := br
        simp only [hb] at h
        split at h
        · rename_i h5
          simp only [Option.some.injEq] at h; subst h
          have e5 : t5 = [] := by simpa using h5
          have e1 := preStep_spec t pre t4 hp
          have e2 := buildStep_spec t4 build t5 hb
          refine ⟨rfl, rfl, rfl, ?_⟩
          rw [e1, e2, e5]; simp
        · cases h

/-- **a strict SemVer text is the canonical spelling of its version** -/
theorem toText_parseStrict (t : Text) (v : Version) (h : parseStrict t = some v) : toText v = t := by
  unfold parseStrict at h
  cases h1 : numericIdent t with
  | none => simp [h1] at h
  | some r1 =>
    obtain ⟨major, t1⟩ := r1
    simp only [h1] at h
    cases d1 : expectDot t1 with
    | none => simp [d1] at h
    | some t1' =>
      simp only [d1] at h
      cases h2 : numericIdent t1' with
      | none => simp [h2] at h
      | some r2 =>
        obtain ⟨minor, t2⟩ := r2
        simp only [h2] at h
        cases d2 : expectDot t2 with
        | none => simp [d2] at h
        | some t2' =>
          simp only [d2] at h
          cases h3 : numericIdent t2' with
          | none => simp [h3] at h
          | some r3 =>
            obtain ⟨patch, t3⟩ := r3
            simp only [h3] at h
            obtain ⟨e_ma, e_mi, e_pa, e_t⟩ := tailStep_spec major minor patch t3 v h
            have e1 := numericIdent_spec t major t1 h1
            have e2 := numericIdent_spec t1' minor t2 h2
            have e3 := numericIdent_spec t2' patch t3 h3
            have f1 := expectDot_spec t1 t1' d1
            have f2 := expectDot_spec t2 t2' d2
            unfold toText
            rw [e_ma, e_mi, e_pa, e1, f1, e2, f2, e3, e_t]
            simp

/-- strict parsing is injective -/
theorem parseStrict_inj (a b : Text) (v : Version) (ha : parseStrict a = some v) (hb : parseStrict b = some v) : a = b := by
  rw [← toText_parseStrict a v ha, ← toText_parseStrict b v hb]

end Vlsp.Semver
