/-
  Vlsp/Text.lean — text as `List Char`, with the handful of `str` operations of
  Rust's standard library that version-lsp uses, written by structural
  recursion so that they reduce in the kernel and admit simple inductive proofs.

  Offsets are BYTE offsets of the UTF-8 encoding (as in Rust), unless a name
  says otherwise.
-/

namespace Vlsp

abbrev Text := List Char

namespace Text

/-- UTF-8 length of a character (Rust `char::len_utf8`). -/
def utf8Len (c : Char) : Nat :=
  if c.val < 0x80 then 1 else if c.val < 0x800 then 2 else if c.val < 0x10000 then 3 else 4

/-- UTF-16 length of a character (Rust `char::len_utf16`). -/
def utf16Len (c : Char) : Nat := if c.val < 0x10000 then 1 else 2

def byteLen : Text → Nat
  | [] => 0
  | c :: cs => utf8Len c + byteLen cs

def utf16Length : Text → Nat
  | [] => 0
  | c :: cs => utf16Len c + utf16Length cs

/-- Unicode `White_Space`, i.e. Rust's `char::is_whitespace`. -/
def isWhite (c : Char) : Bool :=
  let n := c.val.toNat
  (0x09 ≤ n && n ≤ 0x0D) || n == 0x20 || n == 0x85 || n == 0xA0 || n == 0x1680 ||
  (0x2000 ≤ n && n ≤ 0x200A) || n == 0x2028 || n == 0x2029 || n == 0x202F ||
  n == 0x205F || n == 0x3000

def isAsciiDigit (c : Char) : Bool := '0' ≤ c && c ≤ '9'
def isAsciiHexDigit (c : Char) : Bool :=
  isAsciiDigit c || ('a' ≤ c && c ≤ 'f') || ('A' ≤ c && c ≤ 'F')
def isAsciiAlpha (c : Char) : Bool := ('a' ≤ c && c ≤ 'z') || ('A' ≤ c && c ≤ 'Z')
def isAsciiAlnum (c : Char) : Bool := isAsciiDigit c || isAsciiAlpha c

def asciiLower (c : Char) : Char :=
  if 'A' ≤ c && c ≤ 'Z' then Char.ofNat (c.toNat + 32) else c

def trimStart : Text → Text
  | [] => []
  | c :: cs => if isWhite c then trimStart cs else c :: cs

def trimEnd (t : Text) : Text := (trimStart t.reverse).reverse

def trim (t : Text) : Text := trimEnd (trimStart t)

/-- `pat` is a prefix of `t`; returns the remainder. (Rust `str::strip_prefix`.) -/
def stripPrefix : (pat t : Text) → Option Text
  | [], t => some t
  | _ :: _, [] => none
  | p :: ps, c :: cs => if p == c then stripPrefix ps cs else none

def startsWith (t pat : Text) : Bool := (stripPrefix pat t).isSome

def stripSuffix (pat t : Text) : Option Text :=
  (stripPrefix pat.reverse t.reverse).map List.reverse

def endsWith (t pat : Text) : Bool := (stripSuffix pat t).isSome

/-- Rust `str::contains(&str)`. -/
def contains : (t pat : Text) → Bool
  | [], pat => pat.isEmpty
  | c :: cs, pat => startsWith (c :: cs) pat || contains cs pat

/-- Rust `str::trim_start_matches(pat)` for a non-empty pattern: strip `pat`
    repeatedly.  Fuel = length of the text (each strip removes ≥ 1 char). -/
def trimStartMatchesAux (pat : Text) : Nat → Text → Text
  | 0, t => t
  | n + 1, t =>
    match pat with
    | [] => t
    | _ :: _ =>
      match stripPrefix pat t with
      | some r => trimStartMatchesAux pat n r
      | none => t

def trimStartMatches (pat t : Text) : Text := trimStartMatchesAux pat t.length t

/-- Rust `str::split(pat)` for a non-empty pattern `pat`: non-overlapping
    leftmost matches; always returns at least one piece.
    `cur` accumulates the current piece in reverse; `skip` counts characters of
    an already matched separator that are still to be dropped. -/
def splitOnAux (pat : Text) : (t : Text) → (cur : Text) → (skip : Nat) → List Text
  | [], cur, _ => [cur.reverse]
  | _ :: cs, cur, skip + 1 => splitOnAux pat cs cur skip
  | c :: cs, cur, 0 =>
    if startsWith (c :: cs) pat then
      cur.reverse :: splitOnAux pat cs [] (pat.length - 1)
    else
      splitOnAux pat cs (c :: cur) 0

def splitOn (pat t : Text) : List Text := splitOnAux pat t [] 0

/-- Rust `str::split(char)`. -/
def splitCharAux (sep : Char) : (t : Text) → (cur : Text) → List Text
  | [], cur => [cur.reverse]
  | c :: cs, cur =>
    if c == sep then cur.reverse :: splitCharAux sep cs [] else splitCharAux sep cs (c :: cur)

def splitChar (sep : Char) (t : Text) : List Text := splitCharAux sep t []

/-- Rust `str::split_once(char)`. -/
def splitOnceChar (sep : Char) : Text → Option (Text × Text)
  | [] => none
  | c :: cs =>
    if c == sep then some ([], cs)
    else match splitOnceChar sep cs with
      | some (a, b) => some (c :: a, b)
      | none => none

/-- Byte offset of the first occurrence (Rust `str::find(&str)`). -/
def find? (pat : Text) : Text → Option Nat
  | [] => if pat.isEmpty then some 0 else none
  | c :: cs =>
    if startsWith (c :: cs) pat then some 0
    else (find? pat cs).map (· + utf8Len c)

def findChar? (p : Char → Bool) : Text → Option Nat
  | [] => none
  | c :: cs => if p c then some 0 else (findChar? p cs).map (· + utf8Len c)

/-- Rust `str::lines`: split on `\n`, a trailing `\r` of each line is removed, and a final
    empty piece (text ending in a newline) is not a line -/
def linesAux : Text → Text → List Text
  | [], cur => if cur.isEmpty then [] else [cur.reverse]
  | c :: cs, cur =>
    if c == '\n' then
      (match cur with | '\r' :: r => r.reverse | _ => cur.reverse) :: linesAux cs []
    else linesAux cs (c :: cur)

def lines (t : Text) : List Text := linesAux t []

def intercalate (sep : Text) : List Text → Text
  | [] => []
  | [a] => a
  | a :: b :: rest => a ++ sep ++ intercalate sep (b :: rest)

/-- Decimal digits of a natural number (`u64::to_string`).  Fuel-based so that
    it is structurally recursive; `n + 1` fuel is always enough. -/
def natDigitsAux : Nat → Nat → Text → Text
  | 0, _, acc => acc
  | fuel + 1, n, acc =>
    let d := Char.ofNat (48 + n % 10)
    if n < 10 then d :: acc else natDigitsAux fuel (n / 10) (d :: acc)

def natToText (n : Nat) : Text := natDigitsAux (n + 1) n []

def digitVal (c : Char) : Nat := c.toNat - 48

/-- Value of a digit string, most significant first. -/
def digitsVal : Text → Nat → Nat
  | [], acc => acc
  | c :: cs, acc => digitsVal cs (acc * 10 + digitVal c)

def u64Max : Nat := 18446744073709551615

/-- Rust `str::parse::<u64>()`: optional single leading `+`, then one or more
    ASCII digits, value ≤ u64::MAX. -/
def parseU64 (t : Text) : Option Nat :=
  let ds := match t with
    | '+' :: r => r
    | r => r
  if ds.isEmpty then none
  else if ds.all isAsciiDigit then
    let v := digitsVal ds 0
    if v ≤ u64Max then some v else none
  else none

def toLowerAscii (t : Text) : Text := t.map asciiLower

def eqIgnoreAsciiCase (a b : Text) : Bool := toLowerAscii a == toLowerAscii b

def ofString (s : String) : Text := s.toList
def toString (t : Text) : String := String.ofList t

end Text
end Vlsp
