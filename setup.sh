#!/bin/sh
# Build the framework from files on disk only (offline).
set -e
cd "$(dirname "$0")"
export CARGO_NET_OFFLINE=true
python3 tools/extract.py /repo >/dev/null
(cd lean && lake build Vlsp driver)
(cd harness && cargo build --offline)
