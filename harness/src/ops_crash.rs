//! Crash stream: run one cache write operation in a CHILD process that dies (abort or SIGKILL)
//! at the n-th statement point, then look at the database from the parent; and the in-process
//! variant that makes the n-th statement point fail with a database error.
use crate::ops_cache::{CacheState, err_str, rt};
use crate::util::*;
use std::cell::RefCell;
use std::collections::HashMap;
use std::rc::Rc;
use version_lsp::verif::{Action, set_now_ms, set_point_hook};
use version_lsp::version::cache::Cache;
use version_lsp::version::checker::VersionStorer;

/// run `op` on `cache` (or open the cache when op = "open")
fn run_op(path: &std::path::Path, f: &[String]) -> String {
    if f[0] == "open" {
        return match Cache::new(path, 1000, true) {
            Ok(_) => "ok".into(),
            Err(e) => err_str(&e),
        };
    }
    let cache = match Cache::new(path, 1000, true) {
        Ok(c) => c,
        Err(e) => return format!("open-{}", err_str(&e)),
    };
    let unit = |r: Result<(), version_lsp::version::error::CacheError>| match r {
        Ok(()) => "ok".to_string(),
        Err(e) => err_str(&e),
    };
    match f[0].as_str() {
        "replace" => unit(cache.replace_versions(rt(&f[1]), &f[2], f[3..].to_vec())),
        "tags" => {
            let mut m = HashMap::new();
            let mut i = 3;
            while i + 1 < f.len() {
                m.insert(f[i].clone(), f[i + 1].clone());
                i += 2;
            }
            unit(VersionStorer::save_dist_tags(&cache, rt(&f[1]), &f[2], &m))
        }
        "claim" => match cache.try_start_fetch(rt(&f[1]), &f[2]) {
            Ok(b) => tf(b).into(),
            Err(e) => err_str(&e),
        },
        "finish" => unit(cache.finish_fetch(rt(&f[1]), &f[2])),
        "mark" => unit(cache.mark_not_found(rt(&f[1]), &f[2])),
        _ => panic!("bad crash op"),
    }
}

/// child entry: vh crashchild <dbpath> <abort|kill> <n> <skip> <now> <hexfield>...
/// `skip` = number of statement points to let pass first (the points of opening the cache when the
/// operation under test is not "open")
pub fn child_main(args: &[String]) -> ! {
    let path = std::path::PathBuf::from(&args[0]);
    let mode = args[1].clone();
    let n: usize = args[2].parse().unwrap();
    let now: i64 = args[3].parse().unwrap();
    let f: Vec<String> = args[4..].iter().map(|s| unhex(s)).collect();
    set_now_ms(Some(now));
    let counter = Rc::new(RefCell::new(0usize));
    let c2 = counter.clone();
    let is_open = f[0] == "open";
    set_point_hook(Some(Box::new(move |name: &str| {
        // when the operation under test is not `open`, the points of Cache::new do not count
        if !is_open && (name.starts_with("schema.") || name.starts_with("migrate.")) {
            return Action::Continue;
        }
        let mut c = c2.borrow_mut();
        *c += 1;
        if *c == n {
            eprintln!("DIE@{name}");
            if mode == "kill" {
                unsafe {
                    libc::kill(libc::getpid(), libc::SIGKILL);
                }
                loop {
                    std::thread::sleep(std::time::Duration::from_secs(1));
                }
            }
            return Action::Abort;
        }
        Action::Continue
    })));
    let r = run_op(&path, &f);
    println!("{r}");
    std::process::exit(0);
}

pub fn dispatch(cst: &mut CacheState, op: &str, f: &[String]) -> Option<String> {
    match op {
        // crash.run <abort|kill> <n> <op> <args…>  (uses the database of the cache stream; all handles are closed first)
        "crash.run" => {
            cst.handles.clear();
            let path = cst.db_path();
            let exe = std::env::current_exe().unwrap();
            let now = version_lsp::verif::now_override().unwrap_or(0);
            let mut cmd = std::process::Command::new(exe);
            cmd.arg("crashchild").arg(&path).arg(&f[0]).arg(&f[1]).arg(now.to_string());
            for x in &f[2..] {
                cmd.arg(hex(x));
            }
            let out = cmd.output().expect("child");
            let err = String::from_utf8_lossy(&out.stderr);
            let died = err.lines().find_map(|l| l.strip_prefix("DIE@").map(|s| s.to_string()));
            // re-open with a fresh handle, as the next server process would
            let reopened = match Cache::new(&path, cst.interval, cst.ip) {
                Ok(c) => {
                    cst.handles.insert("0".into(), std::sync::Arc::new(c));
                    "reopen-ok".to_string()
                }
                Err(e) => format!("reopen-{}", err_str(&e)),
            };
            Some(match died {
                Some(p) => format!("died@{p} {reopened}"),
                None => format!("completed:{} {reopened}", String::from_utf8_lossy(&out.stdout).trim()),
            })
        }
        // crash.fail <n> <op> <args…> : in-process, the n-th statement point returns a database error
        "crash.fail" => {
            cst.handles.clear();
            let path = cst.db_path();
            let n: usize = f[0].parse().unwrap();
            let counter = Rc::new(RefCell::new(0usize));
            let c2 = counter.clone();
            let is_open = f[1] == "open";
            let hit = Rc::new(RefCell::new(String::new()));
            let h2 = hit.clone();
            set_point_hook(Some(Box::new(move |name: &str| {
                if !is_open && (name.starts_with("schema.") || name.starts_with("migrate.")) {
                    return Action::Continue;
                }
                let mut c = c2.borrow_mut();
                *c += 1;
                if *c == n {
                    *h2.borrow_mut() = name.to_string();
                    return Action::Fail;
                }
                Action::Continue
            })));
            let r = run_op(&path, &f[1..]);
            set_point_hook(None);
            let reopened = match Cache::new(&path, cst.interval, cst.ip) {
                Ok(c) => {
                    cst.handles.insert("0".into(), std::sync::Arc::new(c));
                    "reopen-ok".to_string()
                }
                Err(e) => format!("reopen-{}", err_str(&e)),
            };
            let hitname = hit.borrow().clone();
            Some(if hitname.is_empty() { format!("completed:{r} {reopened}") } else { format!("failed@{hitname}:{r} {reopened}") })
        }
        _ => None,
    }
}
