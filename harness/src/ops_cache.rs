//! Cache stream: real `Cache` handles on one temp database file, virtual clock.
use crate::util::*;
use std::collections::HashMap;
use std::str::FromStr;
use version_lsp::parser::types::RegistryType;
use version_lsp::version::cache::Cache;
use version_lsp::version::checker::VersionStorer;
use version_lsp::version::error::CacheError;

#[derive(Default)]
pub struct CacheState {
    pub dir: Option<tempfile::TempDir>,
    pub handles: HashMap<String, std::sync::Arc<Cache>>,
    pub ip: bool,
    pub interval: i64,
}

pub fn rt(s: &str) -> RegistryType {
    RegistryType::from_str(s).unwrap_or_else(|_| panic!("bad registry {s}"))
}

pub fn err_str(e: &CacheError) -> String {
    match e {
        CacheError::LockPoisoned => "E:poisoned".into(),
        CacheError::Database(rusqlite::Error::SqliteFailure(f, _)) => match f.code {
            rusqlite::ErrorCode::DatabaseBusy | rusqlite::ErrorCode::DatabaseLocked => "E:busy".into(),
            _ => "E:db".into(),
        },
        CacheError::Database(_) => "E:db".into(),
    }
}

fn unit(r: Result<(), CacheError>) -> String {
    match r {
        Ok(()) => "ok".into(),
        Err(e) => err_str(&e),
    }
}

pub fn list(v: &[String]) -> String {
    let mut s = String::from("[");
    for (i, x) in v.iter().enumerate() {
        if i > 0 {
            s.push(',');
        }
        s.push('x');
        s.push_str(&hex(x));
    }
    s.push(']');
    s
}

impl CacheState {
    pub fn db_path(&self) -> std::path::PathBuf {
        self.dir.as_ref().expect("reset first").path().join("versions.db")
    }
    pub fn h(&self, id: &str) -> &Cache {
        self.handles.get(id).unwrap_or_else(|| panic!("no handle {id}"))
    }
}

pub fn dump(path: &std::path::Path) -> String {
    let conn = rusqlite::Connection::open(path).expect("raw open");
    let mut out = String::new();
    let has = |col: &str| -> bool {
        conn.prepare(&format!("SELECT {col} FROM packages LIMIT 1")).is_ok()
    };
    let fs = has("fetching_since");
    let nf = has("not_found");
    let sql = format!(
        "SELECT id, registry_type, package_name, updated_at, {}, {} FROM packages ORDER BY registry_type, package_name",
        if fs { "fetching_since" } else { "NULL" },
        if nf { "not_found" } else { "0" }
    );
    let mut pk: Vec<(i64, String)> = Vec::new();
    {
        let mut st = conn.prepare(&sql).unwrap();
        let rows = st
            .query_map([], |r| {
                Ok((
                    r.get::<_, i64>(0)?,
                    r.get::<_, String>(1)?,
                    r.get::<_, String>(2)?,
                    r.get::<_, i64>(3)?,
                    r.get::<_, Option<i64>>(4)?,
                    r.get::<_, i64>(5)?,
                ))
            })
            .unwrap();
        for row in rows {
            let (id, reg, name, upd, fsv, nfv) = row.unwrap();
            pk.push((id, format!("{}/{}", reg, hex(&name))));
            out.push_str(&format!(
                "P {}/{} u={} f={} n={};",
                reg,
                hex(&name),
                upd,
                fsv.map(|x| x.to_string()).unwrap_or("-".into()),
                nfv
            ));
        }
    }
    let key_of = |id: i64| pk.iter().find(|(i, _)| *i == id).map(|(_, k)| k.clone()).unwrap_or(format!("orphan{id}"));
    let mut vs: Vec<String> = Vec::new();
    {
        let mut st = conn.prepare("SELECT package_id, version FROM versions").unwrap();
        let rows = st.query_map([], |r| Ok((r.get::<_, i64>(0)?, r.get::<_, String>(1)?))).unwrap();
        for row in rows {
            let (pid, v) = row.unwrap();
            vs.push(format!("V {} {};", key_of(pid), hex(&v)));
        }
    }
    vs.sort();
    let mut ts: Vec<String> = Vec::new();
    if conn.prepare("SELECT 1 FROM dist_tags LIMIT 1").is_ok() {
        let mut st = conn.prepare("SELECT package_id, tag_name, version FROM dist_tags").unwrap();
        let rows = st
            .query_map([], |r| Ok((r.get::<_, i64>(0)?, r.get::<_, String>(1)?, r.get::<_, String>(2)?)))
            .unwrap();
        for row in rows {
            let (pid, t, v) = row.unwrap();
            ts.push(format!("T {} {}={};", key_of(pid), hex(&t), hex(&v)));
        }
    }
    ts.sort();
    for v in vs {
        out.push_str(&v);
    }
    for t in ts {
        out.push_str(&t);
    }
    out
}

pub fn dispatch(st: &mut CacheState, op: &str, f: &[String]) -> Option<String> {
    Some(match op {
        "c.reset" => {
            st.handles.clear();
            st.dir = Some(tempfile::Builder::new().prefix("vlsp-verif-").tempdir().expect("tempdir"));
            st.ip = f[0] == "T";
            st.interval = f[1].parse().unwrap();
            version_lsp::verif::set_now_ms(Some(0));
            "ok".into()
        }
        // c.configure <handle> <interval> <ip T|F> : VersionStorer::configure on a live handle (what a configuration answer does);
        // a later reopen constructs with the configured values
        "c.configure" => {
            st.interval = f[1].parse().unwrap();
            st.ip = f[2] == "T";
            VersionStorer::configure(st.h(&f[0]), st.interval, st.ip);
            "ok".into()
        }
        "c.open" => {
            let p = st.db_path();
            match Cache::new(&p, st.interval, st.ip) {
                Ok(c) => {
                    st.handles.insert(f[0].clone(), std::sync::Arc::new(c));
                    "ok".into()
                }
                Err(e) => err_str(&e),
            }
        }
        "c.close" => {
            st.handles.remove(&f[0]);
            "ok".into()
        }
        "c.now" => {
            version_lsp::verif::set_now_ms(Some(f[0].parse().unwrap()));
            "ok".into()
        }
        "c.replace" => unit(st.h(&f[0]).replace_versions(rt(&f[1]), &f[2], f[3..].to_vec())),
        "c.tags" => {
            let mut m = HashMap::new();
            let mut i = 3;
            while i + 1 < f.len() {
                m.insert(f[i].clone(), f[i + 1].clone());
                i += 2;
            }
            unit(VersionStorer::save_dist_tags(st.h(&f[0]), rt(&f[1]), &f[2], &m))
        }
        "c.mark" => unit(st.h(&f[0]).mark_not_found(rt(&f[1]), &f[2])),
        "c.claim" => match st.h(&f[0]).try_start_fetch(rt(&f[1]), &f[2]) {
            Ok(b) => tf(b).into(),
            Err(e) => err_str(&e),
        },
        "c.finish" => unit(st.h(&f[0]).finish_fetch(rt(&f[1]), &f[2])),
        "c.versions" => match VersionStorer::get_versions(st.h(&f[0]), rt(&f[1]), &f[2]) {
            Ok(mut v) => {
                v.sort();
                list(&v)
            }
            Err(e) => err_str(&e),
        },
        "c.versions_raw" => match VersionStorer::get_versions(st.h(&f[0]), rt(&f[1]), &f[2]) {
            Ok(v) => list(&v),
            Err(e) => err_str(&e),
        },
        "c.latest" => match st.h(&f[0]).get_latest_version(rt(&f[1]), &f[2]) {
            Ok(o) => opt(o),
            Err(e) => err_str(&e),
        },
        // latest together with the row order it was computed from
        "c.latest_rows" => {
            let h = st.h(&f[0]);
            let rows = VersionStorer::get_versions(h, rt(&f[1]), &f[2]);
            let tag = VersionStorer::get_dist_tag(h, rt(&f[1]), &f[2], "latest");
            let l = h.get_latest_version(rt(&f[1]), &f[2]);
            match (rows, tag, l) {
                (Ok(r), Ok(t), Ok(l)) => format!("{} {} {}", opt(l), opt(t), list(&r)),
                _ => "E:db".into(),
            }
        }
        "c.exists" => match st.h(&f[0]).version_exists(rt(&f[1]), &f[2], &f[3]) {
            Ok(b) => tf(b).into(),
            Err(e) => err_str(&e),
        },
        "c.tag" => match VersionStorer::get_dist_tag(st.h(&f[0]), rt(&f[1]), &f[2], &f[3]) {
            Ok(o) => opt(o),
            Err(e) => err_str(&e),
        },
        "c.refresh" => match st.h(&f[0]).get_packages_needing_refresh() {
            Ok(v) => {
                let mut xs: Vec<String> =
                    v.iter().map(|p| format!("{}/{}", p.registry_type.as_str(), hex(&p.package_name))).collect();
                xs.sort();
                format!("[{}]", xs.join(","))
            }
            Err(e) => err_str(&e),
        },
        "c.filter" => match st.h(&f[0]).filter_packages_not_in_cache(rt(&f[1]), &f[2..]) {
            Ok(v) => list(&v),
            Err(e) => err_str(&e),
        },
        "c.dump" => dump(&st.db_path()),
        _ => return None,
    })
}
