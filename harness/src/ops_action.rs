//! Code-action stream: real PackageIndex::find_at_position + generate_bump_code_actions(_with_sha)
//! on a real Cache, with a scripted TagShaFetcher; and the end-to-end document variant that applies
//! every offered edit and re-parses.
use crate::ops_basic::matcher_for;
use crate::util::*;
use std::collections::HashMap;
use tower_lsp::lsp_types::{CodeAction, Position, TextEdit, Url};
use version_lsp::lsp::code_action::{PackageIndex, generate_bump_code_actions, generate_bump_code_actions_with_sha, locate_version_in_token};
use version_lsp::parser::traits::Parser;
use version_lsp::parser::types::{ExtraInfo, PackageInfo, RegistryType};
use version_lsp::parser::*;
use version_lsp::version::cache::Cache;
use version_lsp::version::checker::VersionStorer;
use version_lsp::version::error::RegistryError;
use version_lsp::version::registries::github::TagShaFetcher;

pub struct ScriptedTags {
    pub map: HashMap<String, Result<String, ()>>,
    pub calls: std::sync::Mutex<Vec<String>>,
}

#[async_trait::async_trait]
impl TagShaFetcher for ScriptedTags {
    async fn fetch_tag_sha(&self, package_name: &str, tag_name: &str) -> Result<String, RegistryError> {
        self.calls.lock().unwrap().push(format!("{package_name}@{tag_name}"));
        match self.map.get(tag_name) {
            Some(Ok(s)) => Ok(s.clone()),
            Some(Err(())) => Err(RegistryError::RateLimited { retry_after_secs: None }),
            None => Err(RegistryError::NotFound(format!("Tag {tag_name} not found"))),
        }
    }
}

pub fn parser_for(eco: &str) -> Box<dyn Parser> {
    match eco {
        "npm" => Box::new(PackageJsonParser::new()),
        "crates" => Box::new(CargoTomlParser::new()),
        "go" => Box::new(GoModParser::new()),
        "gha" => Box::new(GitHubActionsParser::new()),
        "pypi" => Box::new(PyprojectTomlParser::new()),
        "pnpm" => Box::new(PnpmWorkspaceParser),
        "jsr" => Box::new(DenoJsonParser::new()),
        _ => panic!("unknown parser {eco}"),
    }
}

pub fn pkg_str(p: &PackageInfo) -> String {
    let extra = match &p.extra_info {
        Some(ExtraInfo::GitHubActions { comment_text, comment_start_offset, comment_end_offset }) => {
            format!("S{}:{}:{}", hex(comment_text), comment_start_offset, comment_end_offset)
        }
        None => "-".into(),
    };
    format!(
        "{}|{}|{}|{}|{}|{}|{}|{}",
        hex(&p.name), hex(&p.version), opt(p.commit_hash.clone()), p.start_offset, p.end_offset, p.line, p.column, extra
    )
}

fn action_str(a: &CodeAction) -> String {
    let edits: Vec<&TextEdit> = a.edit.as_ref().and_then(|e| e.changes.as_ref()).map(|c| c.values().flatten().collect()).unwrap_or_default();
    let e = edits[0];
    format!(
        "{}|{}|{}|{}|{}|{}",
        hex(&a.title), e.range.start.line, e.range.start.character, e.range.end.line, e.range.end.character, hex(&e.new_text)
    ) + if edits.len() != 1 { "|MULTI" } else { "" }
}

fn make_cache(rt: RegistryType, names: &[String], versions: &[String], latest_tag: &str) -> (tempfile::TempDir, Cache) {
    let dir = tempfile::Builder::new().prefix("vlsp-verif-").tempdir().expect("tempdir");
    let cache = Cache::new(&dir.path().join("versions.db"), 1000, true).expect("cache");
    for n in names {
        if !versions.is_empty() {
            cache.replace_versions(rt, n, versions.to_vec()).expect("replace");
        }
        if latest_tag != "-" {
            let mut m = HashMap::new();
            m.insert("latest".to_string(), latest_tag[1..].to_string());
            VersionStorer::save_dist_tags(&cache, rt, n, &m).expect("tags");
        }
    }
    (dir, cache)
}

fn run_actions(cache: &Cache, pkgs: &[PackageInfo], line: u32, ch: u32, tags: ScriptedTags) -> (String, Vec<CodeAction>, Vec<String>) {
    run_actions_in(cache, pkgs, None, line, ch, tags)
}

/// the steps of Backend::code_action after the document lookup; with the document text, packages are first pointed at
/// their version text (locate_version_in_token), as the handler does
fn run_actions_in(cache: &Cache, pkgs0: &[PackageInfo], content: Option<&str>, line: u32, ch: u32, tags: ScriptedTags) -> (String, Vec<CodeAction>, Vec<String>) {
    let located: Vec<PackageInfo>;
    let pkgs: &[PackageInfo] = match content {
        Some(c) => { located = pkgs0.iter().filter_map(|p| locate_version_in_token(p, c)).collect(); &located }
        None => pkgs0,
    };
    let index = PackageIndex::new(pkgs);
    let uri = Url::parse("file:///w/doc").unwrap();
    let found = index.find_at_position(Position { line, character: ch });
    let Some(p) = found else { return ("-".into(), vec![], vec![]) };
    // index in the ORIGINAL list (located packages keep name, version and line)
    let idx = pkgs0.iter().position(|q| if content.is_none() { std::ptr::eq(q, p) } else { q.name == p.name && q.version == p.version && q.line == p.line && q.start_offset <= p.start_offset && p.end_offset <= q.end_offset }).unwrap();
    let actions = if p.registry_type == RegistryType::GitHubActions && p.commit_hash.is_some() {
        let rt = tokio::runtime::Builder::new_current_thread().enable_all().build().unwrap();
        rt.block_on(generate_bump_code_actions_with_sha(cache, p, &uri, &tags))
    } else {
        generate_bump_code_actions(cache, p, &uri)
    };
    let calls = tags.calls.lock().unwrap().clone();
    (idx.to_string(), actions, calls)
}

fn parse_tags(f: &[String], mut i: usize) -> (ScriptedTags, usize) {
    let n: usize = f[i].parse().unwrap();
    i += 1;
    let mut map = HashMap::new();
    for _ in 0..n {
        let v = if f[i + 1] == "ERR" { Err(()) } else { Ok(f[i + 1].clone()) };
        map.insert(f[i].clone(), v);
        i += 2;
    }
    (ScriptedTags { map, calls: std::sync::Mutex::new(vec![]) }, i)
}

/// apply one single-line TextEdit (UTF-16 columns) to a document
pub fn apply_edit(content: &str, line: u32, sc: u32, ec: u32, new_text: &str) -> Option<String> {
    let mut out = String::new();
    let mut starts = vec![0usize];
    for (i, ch) in content.char_indices() {
        if ch == '\n' {
            starts.push(i + 1);
        }
    }
    let start = *starts.get(line as usize)?;
    let rest = &content[start..];
    let line_end = rest.find('\n').map(|p| start + p).unwrap_or(content.len());
    let line_text = &content[start..line_end];
    let to_byte = |col: u32| -> Option<usize> {
        let mut u = 0u32;
        for (i, ch) in line_text.char_indices() {
            if u == col { return Some(i); }
            u += ch.len_utf16() as u32;
        }
        if u == col { Some(line_text.len()) } else { None }
    };
    let (bs, be) = (to_byte(sc)?, to_byte(ec)?);
    if bs > be { return None; }
    out.push_str(&content[..start + bs]);
    out.push_str(new_text);
    out.push_str(&content[start + be..]);
    Some(out)
}

pub fn dispatch(op: &str, f: &[String]) -> Option<String> {
    match op {
        // ca.run <eco> <line> <ch> <latestTag|-> <nver> v* <npk> (name version hash|- start end line col extra|- cstart cend)* <ntags> (tag sha|ERR)*
        "ca.run" => {
            let m = matcher_for(&f[0]);
            let rt = m.registry_type();
            let (line, ch): (u32, u32) = (f[1].parse().unwrap(), f[2].parse().unwrap());
            let latest_tag = f[3].clone();
            let mut i = 4;
            let nv: usize = f[i].parse().unwrap(); i += 1;
            let versions = f[i..i + nv].to_vec(); i += nv;
            let npk: usize = f[i].parse().unwrap(); i += 1;
            let mut pkgs = Vec::new();
            for _ in 0..npk {
                let extra = if f[i + 7] == "-" { None } else {
                    Some(ExtraInfo::GitHubActions { comment_text: f[i + 7][1..].to_string(), comment_start_offset: f[i + 8].parse().unwrap(), comment_end_offset: f[i + 9].parse().unwrap() })
                };
                pkgs.push(PackageInfo {
                    name: f[i].clone(), version: f[i + 1].clone(),
                    commit_hash: if f[i + 2] == "-" { None } else { Some(f[i + 2][1..].to_string()) },
                    registry_type: rt, start_offset: f[i + 3].parse().unwrap(), end_offset: f[i + 4].parse().unwrap(),
                    line: f[i + 5].parse().unwrap(), column: f[i + 6].parse().unwrap(), extra_info: extra,
                });
                i += 10;
            }
            let (tags, _) = parse_tags(f, i);
            let names: Vec<String> = { let mut n: Vec<String> = pkgs.iter().map(|p| p.name.clone()).collect(); n.sort(); n.dedup(); n };
            let (_dir, cache) = make_cache(rt, &names, &versions, &latest_tag);
            let (idx, actions, calls) = run_actions(&cache, &pkgs, line, ch, tags);
            let acts: Vec<String> = actions.iter().map(action_str).collect();
            Some(format!("{} [{}] calls=[{}]", idx, acts.join(","), calls.iter().map(|c| hex(c)).collect::<Vec<_>>().join(",")))
        }
        // ca.doc <eco> <content> <line> <ch> <latestTag|-> <nver> v* <ntags> (tag sha|ERR)*
        //  -> parsed packages ; found ; per action: title|range|newText|reparsed packages (or EDIT-INVALID)
        "ca.locate" => {
            // content, version, hash ("-" or S<hash>), start, end, line, column [, comment start, comment end]
            let extra = if f.len() >= 9 { Some(ExtraInfo::GitHubActions { comment_text: "c".into(), comment_start_offset: f[7].parse().unwrap(), comment_end_offset: f[8].parse().unwrap() }) } else { None };
            let p = PackageInfo {
                name: "x".into(), version: f[1].clone(),
                commit_hash: if f[2] == "-" { None } else { Some(f[2][1..].to_string()) },
                registry_type: RegistryType::Npm,
                start_offset: f[3].parse().unwrap(), end_offset: f[4].parse().unwrap(), line: f[5].parse().unwrap(), column: f[6].parse().unwrap(),
                extra_info: extra,
            };
            Some(match locate_version_in_token(&p, &f[0]) {
                None => "none".into(),
                Some(q) => format!("{} {} {} {} {}", q.start_offset, q.end_offset, q.line, q.column, hex(&q.version)),
            })
        }
        "ca.doc" => {
            let m = matcher_for(&f[0]);
            let rt = m.registry_type();
            let parser = parser_for(&f[0]);
            let content = &f[1];
            let (line, ch): (u32, u32) = (f[2].parse().unwrap(), f[3].parse().unwrap());
            let latest_tag = f[4].clone();
            let nv: usize = f[5].parse().unwrap();
            let versions = f[6..6 + nv].to_vec();
            let (tags, _) = parse_tags(f, 6 + nv);
            let pkgs = parser.parse(content).unwrap_or_default();
            let names: Vec<String> = { let mut n: Vec<String> = pkgs.iter().map(|p| p.name.clone()).collect(); n.sort(); n.dedup(); n };
            let (_dir, cache) = make_cache(rt, &names, &versions, &latest_tag);
            let (idx, actions, _calls) = run_actions_in(&cache, &pkgs, Some(content), line, ch, tags);
            let plist = |ps: &[PackageInfo]| ps.iter().map(|p| format!("{}={}={}", hex(&p.name), hex(&p.version), opt(p.commit_hash.clone()))).collect::<Vec<_>>().join(";");
            let mut out = format!("{} # {} #", plist(&pkgs), idx);
            for a in &actions {
                let s = action_str(a);
                let edits: Vec<&TextEdit> = a.edit.as_ref().and_then(|e| e.changes.as_ref()).map(|c| c.values().flatten().collect()).unwrap_or_default();
                let e = edits[0];
                let re = if e.range.start.line != e.range.end.line { "EDIT-MULTILINE".to_string() } else {
                    match apply_edit(content, e.range.start.line, e.range.start.character, e.range.end.character, &e.new_text) {
                        None => "EDIT-INVALID".to_string(),
                        Some(doc) => match parser.parse(&doc) { Ok(ps) => plist(&ps), Err(_) => "REPARSE-ERR".to_string() },
                    }
                };
                out.push_str(&format!(" {} => {} #", s, re));
            }
            Some(out)
        }
        _ => None,
    }
}
