//! vh — line-protocol server over the REAL version-lsp code.
//! One request per line: `<op>\t<hexfield>...`; one response line per request.
mod util;
mod ops_basic;
mod ops_cache;
mod ops_checker;
mod ops_claim;
mod ops_fetch;
mod ops_crash;
mod ops_migrate;
mod ops_action;
mod ops_http;
mod ops_lsp;

use std::io::{BufRead, Write};

fn main() {
    let args: Vec<String> = std::env::args().collect();
    let mode = args.get(1).map(|s| s.as_str()).unwrap_or("serve");
    match mode {
        "serve" => serve(),
        "crashchild" => ops_crash::child_main(&args[2..]),
        other => {
            eprintln!("unknown mode {other}");
            std::process::exit(2);
        }
    }
}

fn serve() {
    // silence panic messages (they are counted, not printed)
    std::panic::set_hook(Box::new(|_| {}));
    let stdin = std::io::stdin();
    let stdout = std::io::stdout();
    let mut out = std::io::BufWriter::new(stdout.lock());
    let mut st = ops_basic::State::default();
    let mut cst = ops_cache::CacheState::default();
    let mut qst = ops_claim::ClaimState::default();
    let mut lst = ops_lsp::LspState::default();
    for line in stdin.lock().lines() {
        let line = line.expect("stdin");
        if line.is_empty() {
            continue;
        }
        let mut it = line.split('\t');
        let op = it.next().unwrap().to_string();
        let fields: Vec<String> = it.map(util::unhex).collect();
        let res = std::panic::catch_unwind(std::panic::AssertUnwindSafe(|| {
            if let Some(r) = ops_cache::dispatch(&mut cst, &op, &fields) {
                return r;
            }
            if let Some(r) = ops_migrate::dispatch(&mut cst, &op, &fields) {
                return r;
            }
            if let Some(r) = ops_crash::dispatch(&mut cst, &op, &fields) {
                return r;
            }
            if let Some(r) = ops_fetch::dispatch(&mut cst, &op, &fields) {
                return r;
            }
            if let Some(r) = ops_claim::dispatch(&mut qst, &op, &fields) {
                return r;
            }
            if let Some(r) = ops_lsp::dispatch(&mut lst, &op, &fields) {
                return r;
            }
            if let Some(r) = ops_http::dispatch(&op, &fields) {
                return r;
            }
            if let Some(r) = ops_action::dispatch(&op, &fields) {
                return r;
            }
            if let Some(r) = ops_checker::dispatch(&op, &fields) {
                return r;
            }
            ops_basic::dispatch(&mut st, &op, &fields)
        }));
        match res {
            Ok(s) => writeln!(out, "{}", s).unwrap(),
            Err(_) => writeln!(out, "PANIC").unwrap(),
        }
    }
    out.flush().unwrap();
}
