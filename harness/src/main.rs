//! vh — line-protocol server over the REAL version-lsp code.
//! One request per line: `<op>\t<hexfield>...`; one response line per request.
mod util;
mod ops_basic;
mod ops_cache;
mod ops_checker;
mod ops_claim;
mod ops_fetch;
mod ops_crash;
mod ops_migrate;
mod ops_action;
mod ops_http;
mod ops_lsp;
mod ops_fuzz;

use std::io::{BufRead, Write};
thread_local! { static LAST_PANIC: std::cell::RefCell<String> = const { std::cell::RefCell::new(String::new()) }; }
use util::hex;

fn main() {
    let args: Vec<String> = std::env::args().collect();
    let mode = args.get(1).map(|s| s.as_str()).unwrap_or("serve");
    match mode {
        "serve" => serve(),
        "crashchild" => ops_crash::child_main(&args[2..]),
        // the production entry point `run_server` (logging set-up, Backend::new, stdio transport), as main.rs runs it
        "runserver" => {
            let rt = tokio::runtime::Builder::new_multi_thread().enable_all().build().expect("runtime");
            match rt.block_on(version_lsp::lsp::server::run_server()) {
                Ok(()) => std::process::exit(0),
                Err(e) => {
                    eprintln!("run_server returned: {e}");
                    std::process::exit(1)
                }
            }
        }
        other => {
            eprintln!("unknown mode {other}");
            std::process::exit(2);
        }
    }
}

fn serve() {
    // silence panic messages (they are counted, not printed)
    // the panic message and location of the last caught panic (reported as PANIC:<location>:<message>)
    std::panic::set_hook(Box::new(|info| {
        let loc = info.location().map(|l| format!("{}:{}", l.file().rsplit("/src/").next().unwrap_or(l.file()), l.line())).unwrap_or_default();
        let crate_ = info.location().map(|l| l.file().split('/').rev().find(|p| p.contains("-0.") || p.contains("-1.") || *p == "repo").unwrap_or("").to_string()).unwrap_or_default();
        let msg = info.payload().downcast_ref::<&str>().map(|s| s.to_string()).or_else(|| info.payload().downcast_ref::<String>().cloned()).unwrap_or_default();
        LAST_PANIC.with(|p| *p.borrow_mut() = format!("{crate_}/{loc}: {}", msg.chars().take(120).collect::<String>()));
    }));
    let stdin = std::io::stdin();
    let stdout = std::io::stdout();
    let mut out = std::io::BufWriter::new(stdout.lock());
    let mut st = ops_basic::State::default();
    let mut cst = ops_cache::CacheState::default();
    let mut qst = ops_claim::ClaimState::default();
    let mut lst = ops_lsp::LspState::default();
    // watchdog: a request that does not complete within the budget is a hang; report it and stop
    static OP_STARTED_MS: std::sync::atomic::AtomicU64 = std::sync::atomic::AtomicU64::new(0);
    let t0 = std::time::Instant::now();
    let budget_ms: u64 = std::env::var("VH_OP_BUDGET_MS").ok().and_then(|v| v.parse().ok()).unwrap_or(120_000);
    std::thread::spawn(move || loop {
        std::thread::sleep(std::time::Duration::from_millis(200));
        let started = OP_STARTED_MS.load(std::sync::atomic::Ordering::SeqCst);
        if started != 0 && (t0.elapsed().as_millis() as u64).saturating_sub(started) > budget_ms {
            eprintln!("HANG");
            std::process::exit(3);
        }
    });
    for line in stdin.lock().lines() {
        let line = line.expect("stdin");
        if line.is_empty() {
            continue;
        }
        OP_STARTED_MS.store(t0.elapsed().as_millis() as u64 + 1, std::sync::atomic::Ordering::SeqCst);
        let mut it = line.split('\t');
        let op = it.next().unwrap().to_string();
        let fields: Vec<String> = it.map(util::unhex).collect();
        let res = std::panic::catch_unwind(std::panic::AssertUnwindSafe(|| {
            if let Some(r) = ops_cache::dispatch(&mut cst, &op, &fields) {
                return r;
            }
            if let Some(r) = ops_migrate::dispatch(&mut cst, &op, &fields) {
                return r;
            }
            if let Some(r) = ops_crash::dispatch(&mut cst, &op, &fields) {
                return r;
            }
            if let Some(r) = ops_fetch::dispatch(&mut cst, &op, &fields) {
                return r;
            }
            if let Some(r) = ops_claim::dispatch(&mut qst, &op, &fields) {
                return r;
            }
            if let Some(r) = ops_lsp::dispatch(&mut lst, &op, &fields) {
                return r;
            }
            if let Some(r) = ops_fuzz::dispatch(&op, &fields) {
                return r;
            }
            if let Some(r) = ops_http::dispatch(&op, &fields) {
                return r;
            }
            if let Some(r) = ops_action::dispatch(&op, &fields) {
                return r;
            }
            if let Some(r) = ops_checker::dispatch(&op, &fields) {
                return r;
            }
            ops_basic::dispatch(&mut st, &op, &fields)
        }));
        match res {
            Ok(s) => writeln!(out, "{}", s).unwrap(),
            Err(_) => writeln!(out, "PANIC {}", hex(&LAST_PANIC.with(|p| p.borrow().clone()))).unwrap(),
        }
        OP_STARTED_MS.store(0, std::sync::atomic::Ordering::SeqCst);
        out.flush().unwrap();
    }
    out.flush().unwrap();
}
