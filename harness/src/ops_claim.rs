//! Claim stream: explicit statement-level schedules of try_start_fetch on several
//! real Cache handles (one SQLite file), using the cfg(vlsp_verif) statement points.
use crate::ops_cache::{dump, err_str, rt};
use crate::util::*;
use std::collections::HashMap;
use std::sync::mpsc::{Receiver, Sender, channel};
use std::sync::Arc;
use version_lsp::verif::{Action, set_now_ms, set_point_hook};
use version_lsp::version::cache::Cache;
use version_lsp::version::checker::VersionStorer;

enum Msg {
    Parked,
    Done(String),
}

struct Pending {
    go: Sender<bool>, // true = continue, false = fail the statement
    from: Receiver<Msg>,
}

#[derive(Default)]
pub struct ClaimState {
    dir: Option<tempfile::TempDir>,
    handles: HashMap<String, Arc<Cache>>,
    pending: HashMap<String, Pending>,
    now: i64,
}

impl ClaimState {
    fn handle(&mut self, h: &str) -> Arc<Cache> {
        if !self.handles.contains_key(h) {
            let p = self.dir.as_ref().unwrap().path().join("versions.db");
            self.handles.insert(h.to_string(), Arc::new(Cache::new(&p, 1000, true).expect("open")));
        }
        self.handles[h].clone()
    }
}

pub fn dispatch(st: &mut ClaimState, op: &str, f: &[String]) -> Option<String> {
    Some(match op {
        "q.reset" => {
            // release anything still parked
            for (_, p) in st.pending.drain() {
                let _ = p.go.send(false);
                let _ = p.from.recv();
            }
            st.handles.clear();
            st.dir = Some(tempfile::Builder::new().prefix("vlsp-verif-").tempdir().expect("tempdir"));
            st.now = 0;
            set_now_ms(Some(0));
            "ok".into()
        }
        "q.tick" => {
            st.now += f[0].parse::<i64>().unwrap();
            set_now_ms(Some(st.now));
            "ok".into()
        }
        // q.enter <claimant> <handle> <reg> <name> : enters try_start_fetch (clock read), parks before the UPDATE
        "q.enter" => {
            let cache = st.handle(&f[1]);
            let (reg, name) = (rt(&f[2]), f[3].clone());
            let (to_main, from) = channel::<Msg>();
            let (go, wait) = channel::<bool>();
            let tm = to_main.clone();
            std::thread::spawn(move || {
                set_point_hook(Some(Box::new(move |name: &str| {
                    if name == "claim.before_insert" || name == "claim.before_update" {
                        let _ = tm.send(Msg::Parked);
                        match wait.recv() {
                            Ok(true) => Action::Continue,
                            _ => Action::Fail,
                        }
                    } else {
                        Action::Continue
                    }
                })));
                let r = match cache.try_start_fetch(reg, &name) {
                    Ok(b) => tf(b).to_string(),
                    Err(e) => err_str(&e),
                };
                set_point_hook(None);
                let _ = to_main.send(Msg::Done(r));
            });
            match from.recv().expect("claimant") {
                Msg::Done(r) => r,
                Msg::Parked => {
                    st.pending.insert(f[0].clone(), Pending { go, from });
                    "P".into()
                }
            }
        }
        // q.update / q.insert: let the parked claimant run its next statement; q.busy: make it fail
        "q.update" | "q.insert" | "q.busy" => match st.pending.remove(&f[0]) {
            None => "nop".into(),
            Some(p) => {
                let _ = p.go.send(op != "q.busy");
                match p.from.recv().expect("claimant") {
                    Msg::Done(r) => r,
                    Msg::Parked => {
                        st.pending.insert(f[0].clone(), p);
                        "P".into()
                    }
                }
            }
        },
        // q.atomic <claimant> <handle> <reg> <name> — both statements under the handle mutex
        "q.atomic" => {
            let cache = st.handle(&f[1]);
            match cache.try_start_fetch(rt(&f[2]), &f[3]) {
                Ok(b) => tf(b).into(),
                Err(e) => err_str(&e),
            }
        }
        // q.store <handle> <reg> <name> v* — replace_versions by whoever (normally the owner, while it holds the claim)
        "q.store" => {
            let cache = st.handle(&f[0]);
            match cache.replace_versions(rt(&f[1]), &f[2], f[3..].to_vec()) {
                Ok(()) => "ok".into(),
                Err(e) => err_str(&e),
            }
        }
        "q.mark" => {
            let cache = st.handle(&f[0]);
            match cache.mark_not_found(rt(&f[1]), &f[2]) {
                Ok(()) => "ok".into(),
                Err(e) => err_str(&e),
            }
        }
        "q.release" => {
            let cache = st.handle(&f[0]);
            match cache.finish_fetch(rt(&f[1]), &f[2]) {
                Ok(()) => "ok".into(),
                Err(e) => err_str(&e),
            }
        }
        // q.race <threads> <reg> <name> <existing T|F> : REAL concurrency — `threads` OS threads, each with its own connection
        // to the same database file, call try_start_fetch at the same instant (barrier); answer: "won=<k> lost=<l> err=<e>"
        "q.race" => {
            let n: usize = f[0].parse().unwrap();
            let (reg, name) = (rt(&f[1]), f[2].clone());
            let p = st.dir.as_ref().unwrap().path().join("versions.db");
            if f[3] == "T" {
                let c = Cache::new(&p, 1000, true).expect("open");
                c.replace_versions(reg, &name, vec!["1.0.0".to_string()]).expect("seed row");
            } else {
                let _ = Cache::new(&p, 1000, true).expect("open");      // schema exists before the race
            }
            let barrier = Arc::new(std::sync::Barrier::new(n));
            let mut joins = Vec::new();
            for _ in 0..n {
                let (p, name, barrier) = (p.clone(), name.clone(), barrier.clone());
                joins.push(std::thread::spawn(move || {
                    let c = Cache::new(&p, 1000, true).expect("open");
                    barrier.wait();
                    c.try_start_fetch(reg, &name)
                }));
            }
            let (mut won, mut lost, mut err) = (0, 0, 0);
            for j in joins {
                match j.join().expect("thread") { Ok(true) => won += 1, Ok(false) => lost += 1, Err(_) => err += 1 }
            }
            // release for the next round
            let c = Cache::new(&p, 1000, true).expect("open");
            let _ = c.finish_fetch(reg, &name);
            format!("won={won} lost={lost} err={err}")
        }
        "q.dump" => {
            // (a schedule of ticks only has opened no handle yet: the schema must exist before the raw dump reads it)
            let _ = st.handle("a0");
            let p = st.dir.as_ref().unwrap().path().join("versions.db");
            dump(&p)
        }
        _ => return None,
    })
}
