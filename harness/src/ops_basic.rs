use crate::util::*;
use version_lsp::parser::types::{RegistryType, detect_parser_type};
use version_lsp::version::matcher::VersionMatcher;
use version_lsp::version::matchers::*;
use version_lsp::version::semver::{
    CompareResult, calculate_latest_major, calculate_latest_minor, calculate_latest_patch,
    is_prerelease, parse_version,
};

#[derive(Default)]
pub struct State {}

pub fn matcher_for(name: &str) -> Box<dyn VersionMatcher> {
    match name {
        "npm" => Box::new(NpmVersionMatcher),
        "pnpm" => Box::new(PnpmCatalogMatcher),
        "jsr" => Box::new(JsrVersionMatcher),
        "crates" => Box::new(CratesVersionMatcher),
        "pypi" => Box::new(PypiVersionMatcher),
        "go" => Box::new(GoVersionMatcher),
        "gha" => Box::new(GitHubActionsMatcher),
        _ => panic!("unknown matcher {name}"),
    }
}

pub fn cmp_str(c: CompareResult) -> &'static str {
    match c {
        CompareResult::Latest => "latest",
        CompareResult::Outdated => "outdated",
        CompareResult::Newer => "newer",
        CompareResult::Invalid => "invalid",
    }
}

pub fn rt_str(r: Option<RegistryType>) -> String {
    match r {
        Some(r) => r.as_str().to_string(),
        None => "-".to_string(),
    }
}

fn ver_str(v: &semver::Version) -> String {
    format!(
        "{}.{}.{}|{}|{}",
        v.major,
        v.minor,
        v.patch,
        hex(v.pre.as_str()),
        hex(v.build.as_str())
    )
}

pub fn dispatch(_st: &mut State, op: &str, f: &[String]) -> String {
    match op {
        "detect" => rt_str(detect_parser_type(&f[0])),
        "semver.strict" => match semver::Version::parse(&f[0]) {
            Ok(v) => format!("{} {}", ver_str(&v), hex(&v.to_string())),
            Err(_) => "-".into(),
        },
        "semver.lenient" => match parse_version(&f[0]) {
            Some(v) => format!("{} {}", ver_str(&v), hex(&v.to_string())),
            None => "-".into(),
        },
        "semver.cmp" => {
            let a = semver::Version::parse(&f[0]);
            let b = semver::Version::parse(&f[1]);
            match (a, b) {
                (Ok(a), Ok(b)) => format!("{:?} {}", a.cmp(&b), tf(a == b)).to_lowercase(),
                _ => "-".into(),
            }
        }
        "semver.ispre" => tf(is_prerelease(&f[0])).into(),
        "semver.bump" => {
            let cur = &f[0];
            let avail: Vec<String> = f[1..].to_vec();
            format!(
                "{} {} {}",
                opt(calculate_latest_patch(cur, &avail)),
                opt(calculate_latest_minor(cur, &avail)),
                opt(calculate_latest_major(cur, &avail))
            )
        }
        "match.exists" => {
            let m = matcher_for(&f[0]);
            tf(m.version_exists(&f[1], &f[2..])).into()
        }
        "match.cmp" => {
            let m = matcher_for(&f[0]);
            cmp_str(m.compare_to_latest(&f[1], &f[2])).into()
        }
        // serde's view of the configuration: from_str -> Value -> LspConfig (as the backend does with the client's answer)
        "cfg.parse" => {
            let Ok(v) = serde_json::from_str::<serde_json::Value>(&f[0]) else { return "notjson".into() };
            match serde_json::from_value::<version_lsp::config::LspConfig>(v) {
                Err(_) => "err".into(),
                Ok(c) => {
                    let r = &c.registries;
                    let flags = [("npm", r.npm.enabled), ("crates_io", r.crates.enabled), ("go_proxy", r.go_proxy.enabled),
                        ("github_actions", r.github.enabled), ("pnpm_catalog", r.pnpm_catalog.enabled), ("jsr", r.jsr.enabled), ("pypi", r.pypi.enabled)];
                    let dis: Vec<&str> = flags.iter().filter(|(_, e)| !*e).map(|(n, _)| *n).collect();
                    format!("ok disabled=[{}] ip={} ri={}", dis.join(","), tf(c.ignore_prerelease), c.cache.refresh_interval)
                }
            }
        }
        // optional oracle for the Cargo reference spec: the semver crate itself
        "oracle.cargo" => match semver::VersionReq::parse(&f[0]) {
            Err(_) => "invalid".into(),
            Ok(req) => match semver::Version::parse(&f[1]) {
                Err(_) => "badv".into(),
                Ok(v) => tf(req.matches(&v)).into(),
            },
        },
        _ => format!("UNKNOWN-OP {op}"),
    }
}
