//! Registry stream: the six real registry adapters (and GitHubRegistry::fetch_tag_sha) against a
//! scripted local HTTP server.
use crate::ops_cache::list;
use crate::util::*;
use std::io::{Read, Write};
use std::net::TcpListener;
use std::sync::{Arc, Mutex};
use version_lsp::version::error::RegistryError;
use version_lsp::version::registries::github::TagShaFetcher;
use version_lsp::version::registries::*;
use version_lsp::version::registry::Registry;

/// one scripted response per request, in order (the last one repeats)
pub struct Script {
    pub responses: Vec<(u16, String, String)>, // status, extra headers (raw, CRLF separated), body
}

pub fn serve(script: Script) -> (String, Arc<Mutex<Vec<String>>>, std::thread::JoinHandle<()>, Arc<std::sync::atomic::AtomicBool>) {
    let listener = TcpListener::bind("127.0.0.1:0").expect("bind");
    listener.set_nonblocking(true).unwrap();
    let addr = listener.local_addr().unwrap();
    let log = Arc::new(Mutex::new(Vec::new()));
    let log2 = log.clone();
    let stop = Arc::new(std::sync::atomic::AtomicBool::new(false));
    let stop2 = stop.clone();
    let base_for_headers = format!("http://{}", addr);
    let h = std::thread::spawn(move || {
        let mut n = 0usize;
        loop {
            if stop2.load(std::sync::atomic::Ordering::SeqCst) {
                break;
            }
            match listener.accept() {
                Ok((mut s, _)) => {
                    s.set_nonblocking(false).unwrap();
                    let mut buf = Vec::new();
                    let mut tmp = [0u8; 4096];
                    loop {
                        match s.read(&mut tmp) {
                            Ok(0) => break,
                            Ok(k) => {
                                buf.extend_from_slice(&tmp[..k]);
                                if buf.windows(4).any(|w| w == b"\r\n\r\n") {
                                    break;
                                }
                            }
                            Err(_) => break,
                        }
                    }
                    let req = String::from_utf8_lossy(&buf).to_string();
                    let path = req.lines().next().unwrap_or("").split(' ').nth(1).unwrap_or("").to_string();
                    log2.lock().unwrap().push(path);
                    let (status, headers, body) = script.responses[n.min(script.responses.len() - 1)].clone();
                    // "{BASE}" in a scripted header (a Link to the next page) stands for this server's own address
                    let headers = headers.replace("{BASE}", &base_for_headers);
                    n += 1;
                    let resp = format!(
                        "HTTP/1.1 {} X\r\nContent-Length: {}\r\nConnection: close\r\n{}\r\n",
                        status,
                        body.len(),
                        headers
                    );
                    let _ = s.write_all(resp.as_bytes());
                    let _ = s.write_all(body.as_bytes());
                    let _ = s.flush();
                }
                Err(_) => std::thread::sleep(std::time::Duration::from_millis(1)),
            }
        }
    });
    (format!("http://{}", addr), log, h, stop)
}

fn err_kind(e: &RegistryError) -> &'static str {
    match e {
        RegistryError::Network(_) => "network",
        RegistryError::RateLimited { .. } => "ratelimited",
        RegistryError::NotFound(_) => "notfound",
        RegistryError::InvalidResponse(_) => "invalid",
    }
}

pub fn dispatch(op: &str, f: &[String]) -> Option<String> {
    match op {
        // http.fetch <adapter> <package> <nresp> (status headers body)*
        "http.fetch" | "http.tagsha" => {
            let (adapter, name) = (f[0].clone(), f[1].clone());
            let mut i = if op == "http.tagsha" { 3 } else { 2 };
            let n: usize = f[i].parse().unwrap();
            i += 1;
            let mut responses = Vec::new();
            for _ in 0..n {
                responses.push((f[i].parse::<u16>().unwrap(), f[i + 1].clone(), f[i + 2].clone()));
                i += 3;
            }
            let (base, log, h, stop) = serve(Script { responses });
            let rt = tokio::runtime::Builder::new_current_thread().enable_all().build().unwrap();
            let out = if op == "http.tagsha" {
                let reg = GitHubRegistry::new(&base);
                match rt.block_on(reg.fetch_tag_sha(&name, &f[2])) {
                    Ok(sha) => format!("ok {}", hex(&sha)),
                    Err(e) => format!("err {}", err_kind(&e)),
                }
            } else {
                let reg: Box<dyn Registry> = match adapter.as_str() {
                    "npm" => Box::new(NpmRegistry::new(&base)),
                    "crates" => Box::new(CratesIoRegistry::new(&base)),
                    "go" => Box::new(GoProxyRegistry::new(&base)),
                    "github" => Box::new(GitHubRegistry::new(&base)),
                    "jsr" => Box::new(JsrRegistry::new(&base)),
                    "pypi" => Box::new(PypiRegistry::new(base.clone())),
                    _ => panic!("adapter"),
                };
                match rt.block_on(reg.fetch_all_versions(&name)) {
                    Ok(pv) => {
                        let mut tags: Vec<String> = pv.dist_tags.iter().map(|(k, v)| format!("{}={}", hex(k), hex(v))).collect();
                        tags.sort();
                        format!("ok {} tags=[{}]", list(&pv.versions), tags.join(","))
                    }
                    Err(e) => format!("err {}", err_kind(&e)),
                }
            };
            stop.store(true, std::sync::atomic::Ordering::SeqCst);
            let _ = h.join();
            let paths = log.lock().unwrap().clone();
            Some(format!("{} paths={}", out, list(&paths)))
        }
        _ => None,
    }
}
