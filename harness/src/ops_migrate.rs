//! Migration stream: legacy database files written with raw SQL (the three schema generations at
//! any recorded version), opened by the real Cache::new — sequentially, repeatedly, and by two
//! handles at the same moment under an explicit statement-level schedule.
use crate::ops_cache::{CacheState, err_str};
use crate::util::*;
use std::sync::mpsc::{Receiver, Sender, channel};
use version_lsp::verif::{Action, set_now_ms, set_point_hook};
use version_lsp::version::cache::Cache;

fn shape(path: &std::path::Path) -> String {
    let conn = rusqlite::Connection::open(path).expect("raw open");
    let has_table = |t: &str| -> bool {
        conn.query_row("SELECT count(*) FROM sqlite_master WHERE type='table' AND name=?1", [t], |r| r.get::<_, i64>(0))
            .unwrap_or(0) > 0
    };
    let has_col = |c: &str| -> bool { conn.prepare(&format!("SELECT {c} FROM packages LIMIT 1")).is_ok() };
    let uv: i64 = conn.pragma_query_value(None, "user_version", |r| r.get(0)).unwrap_or(-99);
    format!(
        "pk={} vs={} dt={} fs={} nf={} uv={}",
        tf(has_table("packages")), tf(has_table("versions")), tf(has_table("dist_tags")),
        tf(has_table("packages") && has_col("fetching_since")), tf(has_table("packages") && has_col("not_found")), uv
    )
}

enum Msg { Parked, Done(String) }
struct Att { go: Sender<bool>, from: Receiver<Msg>, result: Option<String> }

fn spawn_open(path: std::path::PathBuf) -> Att {
    let (to_main, from) = channel::<Msg>();
    let (go, wait) = channel::<bool>();
    let tm = to_main.clone();
    std::thread::spawn(move || {
        set_point_hook(Some(Box::new(move |name: &str| {
            if name.starts_with("schema.") || name.starts_with("migrate.") {
                let _ = tm.send(Msg::Parked);
                match wait.recv() { Ok(true) => Action::Continue, _ => Action::Fail }
            } else { Action::Continue }
        })));
        let r = match Cache::new(&path, 1000, true) { Ok(_) => "ok".to_string(), Err(e) => err_str(&e) };
        set_point_hook(None);
        let _ = to_main.send(Msg::Done(r));
    });
    let mut a = Att { go, from, result: None };
    // run to the first park
    match a.from.recv().expect("open thread") { Msg::Parked => {}, Msg::Done(r) => a.result = Some(r) }
    a
}

fn advance(a: &mut Att, ok: bool) {
    if a.result.is_some() { return; }
    let _ = a.go.send(ok);
    match a.from.recv().expect("open thread") { Msg::Parked => {}, Msg::Done(r) => a.result = Some(r) }
}

pub fn dispatch(cst: &mut CacheState, op: &str, f: &[String]) -> Option<String> {
    match op {
        // m.make <hasFS> <hasNF> <hasDistTags> <uv> <npk> (reg name upd fs nf)* <nv> (pidx v)* <nt> (pidx t v)*
        "m.make" => {
            cst.handles.clear();
            cst.dir = Some(tempfile::Builder::new().prefix("vlsp-verif-").tempdir().expect("tempdir"));
            cst.ip = true; cst.interval = 1000;
            set_now_ms(Some(0));
            let path = cst.db_path();
            let conn = rusqlite::Connection::open(&path).expect("raw");
            let (hfs, hnf, hdt) = (f[0] == "T", f[1] == "T", f[2] == "T");
            let mut cols = String::from("id INTEGER PRIMARY KEY AUTOINCREMENT, registry_type TEXT NOT NULL, package_name TEXT NOT NULL, updated_at INTEGER NOT NULL");
            if hfs { cols.push_str(", fetching_since INTEGER"); }
            if hnf { cols.push_str(", not_found INTEGER NOT NULL DEFAULT 0"); }
            conn.execute_batch(&format!("CREATE TABLE packages ({cols}, UNIQUE(registry_type, package_name));
                CREATE TABLE versions (id INTEGER PRIMARY KEY AUTOINCREMENT, package_id INTEGER NOT NULL, version TEXT NOT NULL,
                  FOREIGN KEY (package_id) REFERENCES packages(id) ON DELETE CASCADE, UNIQUE(package_id, version));")).expect("ddl");
            if hdt {
                conn.execute_batch("CREATE TABLE dist_tags (id INTEGER PRIMARY KEY AUTOINCREMENT, package_id INTEGER NOT NULL, tag_name TEXT NOT NULL,
                  version TEXT NOT NULL, FOREIGN KEY (package_id) REFERENCES packages(id) ON DELETE CASCADE, UNIQUE(package_id, tag_name));").expect("ddl2");
            }
            conn.pragma_update(None, "user_version", f[3].parse::<i64>().unwrap()).expect("uv");
            let mut i = 4;
            let npk: usize = f[i].parse().unwrap(); i += 1;
            for _ in 0..npk {
                let (reg, name, upd, fs, nf) = (&f[i], &f[i+1], f[i+2].parse::<i64>().unwrap(), &f[i+3], &f[i+4]); i += 5;
                conn.execute("INSERT INTO packages (registry_type, package_name, updated_at) VALUES (?1, ?2, ?3)", (reg, name, upd)).expect("ins");
                let id = conn.last_insert_rowid();
                if hfs && fs != "-" { conn.execute("UPDATE packages SET fetching_since = ?1 WHERE id = ?2", (fs.parse::<i64>().unwrap(), id)).unwrap(); }
                if hnf && nf == "1" { conn.execute("UPDATE packages SET not_found = 1 WHERE id = ?1", [id]).unwrap(); }
            }
            let nv: usize = f[i].parse().unwrap(); i += 1;
            for _ in 0..nv {
                conn.execute("INSERT INTO versions (package_id, version) VALUES (?1, ?2)", (f[i].parse::<i64>().unwrap() + 1, &f[i+1])).expect("insv"); i += 2;
            }
            let nt: usize = f[i].parse().unwrap(); i += 1;
            for _ in 0..nt {
                if hdt { conn.execute("INSERT INTO dist_tags (package_id, tag_name, version) VALUES (?1, ?2, ?3)", (f[i].parse::<i64>().unwrap() + 1, &f[i+1], &f[i+2])).expect("inst"); }
                i += 3;
            }
            Some("ok".into())
        }
        "m.fresh" => {
            cst.handles.clear();
            cst.dir = Some(tempfile::Builder::new().prefix("vlsp-verif-").tempdir().expect("tempdir"));
            cst.ip = true; cst.interval = 1000;
            set_now_ms(Some(0));
            Some("ok".into())
        }
        "m.shape" => Some(shape(&cst.db_path())),
        // m.open2 <moves> : a/b advance attempt A/B to its next statement point, A/B make it fail there
        "m.open2" => {
            let path = cst.db_path();
            let mut a = spawn_open(path.clone());
            let mut b = spawn_open(path.clone());
            for ch in f[0].chars() {
                match ch { 'a' => advance(&mut a, true), 'b' => advance(&mut b, true), 'A' => advance(&mut a, false), 'B' => advance(&mut b, false), _ => {} }
            }
            let ra = a.result.clone().unwrap_or("pending".into());
            let rb = b.result.clone().unwrap_or("pending".into());
            let sh = shape(&path);
            // let both run to completion
            while a.result.is_none() { advance(&mut a, true); }
            while b.result.is_none() { advance(&mut b, true); }
            Some(format!("A={} B={} {} | finally A={} B={} {}", ra, rb, sh, a.result.unwrap(), b.result.unwrap(), shape(&path)))
        }
        _ => None,
    }
}
