//! Fetch stream: real fetch_missing_packages / refresh_packages over the real Cache wrapped in a
//! fault-injecting VersionStorer decorator, with a scripted Registry.
use crate::ops_cache::{CacheState, list, rt};
use crate::ops_checker::pkg;
use crate::util::*;
use std::collections::{HashMap, HashSet};
use std::sync::{Arc, Mutex};
use version_lsp::lsp::refresh::{fetch_missing_packages, refresh_packages};
use version_lsp::parser::types::RegistryType;
use version_lsp::version::cache::{Cache, PackageId};
use version_lsp::version::checker::VersionStorer;
use version_lsp::version::error::{CacheError, RegistryError};
use version_lsp::version::registry::Registry;
use version_lsp::version::types::PackageVersions;

pub struct FaultyStorer {
    pub inner: Arc<Cache>,
    /// (package name, call site letter) that fail; "*" as name = every package
    pub faults: HashSet<(String, char)>,
    pub log: Mutex<Vec<String>>,
}

fn injected() -> CacheError {
    CacheError::Database(rusqlite::Error::SqliteFailure(
        rusqlite::ffi::Error::new(rusqlite::ffi::SQLITE_IOERR),
        Some("injected".into()),
    ))
}

impl FaultyStorer {
    fn fails(&self, name: &str, site: char) -> bool {
        self.log.lock().unwrap().push(format!("{site}:{name}"));
        self.faults.contains(&(name.to_string(), site)) || self.faults.contains(&("*".to_string(), site))
    }
}

impl VersionStorer for FaultyStorer {
    fn get_latest_version(&self, r: RegistryType, n: &str) -> Result<Option<String>, CacheError> {
        if self.fails(n, 'L') { return Err(injected()); }
        self.inner.get_latest_version(r, n)
    }
    fn get_versions(&self, r: RegistryType, n: &str) -> Result<Vec<String>, CacheError> {
        if self.fails(n, 'V') { return Err(injected()); }
        VersionStorer::get_versions(&*self.inner, r, n)
    }
    fn version_exists(&self, r: RegistryType, n: &str, v: &str) -> Result<bool, CacheError> {
        self.inner.version_exists(r, n, v)
    }
    fn replace_versions(&self, r: RegistryType, n: &str, v: Vec<String>) -> Result<(), CacheError> {
        if self.fails(n, 'r') { return Err(injected()); }
        self.inner.replace_versions(r, n, v)
    }
    fn get_packages_needing_refresh(&self) -> Result<Vec<PackageId>, CacheError> {
        if self.fails("*", 'n') { return Err(injected()); }
        self.inner.get_packages_needing_refresh()
    }
    fn try_start_fetch(&self, r: RegistryType, n: &str) -> Result<bool, CacheError> {
        if self.fails(n, 'c') { return Err(injected()); }
        self.inner.try_start_fetch(r, n)
    }
    fn finish_fetch(&self, r: RegistryType, n: &str) -> Result<(), CacheError> {
        if self.fails(n, 'f') { return Err(injected()); }
        self.inner.finish_fetch(r, n)
    }
    fn get_dist_tag(&self, r: RegistryType, n: &str, t: &str) -> Result<Option<String>, CacheError> {
        if self.fails(n, 'T') { return Err(injected()); }
        VersionStorer::get_dist_tag(&*self.inner, r, n, t)
    }
    fn save_dist_tags(&self, r: RegistryType, n: &str, t: &HashMap<String, String>) -> Result<(), CacheError> {
        if self.fails(n, 's') { return Err(injected()); }
        VersionStorer::save_dist_tags(&*self.inner, r, n, t)
    }
    fn filter_packages_not_in_cache(&self, r: RegistryType, n: &[String]) -> Result<Vec<String>, CacheError> {
        if self.fails("*", 'F') { return Err(injected()); }
        self.inner.filter_packages_not_in_cache(r, n)
    }
    fn mark_not_found(&self, r: RegistryType, n: &str) -> Result<(), CacheError> {
        if self.fails(n, 'm') { return Err(injected()); }
        self.inner.mark_not_found(r, n)
    }
}

#[derive(Clone)]
pub enum Scripted {
    Ok(Vec<String>, HashMap<String, String>),
    NotFound,
    RateLimited,
    Invalid,
}

pub struct ScriptedRegistry {
    pub rt: RegistryType,
    pub script: HashMap<String, Scripted>,
    pub calls: Mutex<Vec<String>>,
}

#[async_trait::async_trait]
impl Registry for ScriptedRegistry {
    fn registry_type(&self) -> RegistryType {
        self.rt
    }
    async fn fetch_all_versions(&self, name: &str) -> Result<PackageVersions, RegistryError> {
        self.calls.lock().unwrap().push(name.to_string());
        match self.script.get(name).cloned().unwrap_or(Scripted::Invalid) {
            Scripted::Ok(v, t) => Ok(PackageVersions::with_dist_tags(v, t)),
            Scripted::NotFound => Err(RegistryError::NotFound(name.to_string())),
            Scripted::RateLimited => Err(RegistryError::RateLimited { retry_after_secs: None }),
            Scripted::Invalid => Err(RegistryError::InvalidResponse("scripted".into())),
        }
    }
}

/// parse jobs: <njobs> (name kind nvs v* ntags (t v)* faults)*   ; returns (jobs, script, faults)
pub fn parse_jobs(f: &[String], mut i: usize) -> (Vec<String>, HashMap<String, Scripted>, HashSet<(String, char)>) {
    let n: usize = f[i].parse().unwrap();
    i += 1;
    let mut names = Vec::new();
    let mut script = HashMap::new();
    let mut faults = HashSet::new();
    for _ in 0..n {
        let name = f[i].clone();
        let kind = f[i + 1].clone();
        i += 2;
        let nv: usize = f[i].parse().unwrap();
        i += 1;
        let vs = f[i..i + nv].to_vec();
        i += nv;
        let nt: usize = f[i].parse().unwrap();
        i += 1;
        let mut tags = HashMap::new();
        for _ in 0..nt {
            tags.insert(f[i].clone(), f[i + 1].clone());
            i += 2;
        }
        for ch in f[i].chars() {
            if ch != '-' {
                faults.insert((name.clone(), ch));
            }
        }
        i += 1;
        let sc = match kind.as_str() {
            "ok" => Scripted::Ok(vs, tags),
            "nf" => Scripted::NotFound,
            "rl" => Scripted::RateLimited,
            _ => Scripted::Invalid,
        };
        script.insert(name.clone(), sc);
        names.push(name);
    }
    (names, script, faults)
}

pub fn dispatch(cst: &mut CacheState, op: &str, f: &[String]) -> Option<String> {
    if op != "fetch.missing" && op != "fetch.refresh" {
        return None;
    }
    // <reg> <globalfaults> <jobs…>
    let reg = rt(&f[0]);
    let (names, script, mut faults) = parse_jobs(f, 2);
    for ch in f[1].chars() {
        if ch != '-' {
            faults.insert(("*".to_string(), ch));
        }
    }
    let inner = cst.handles.get("0").expect("handle 0").clone();
    let storer = FaultyStorer { inner, faults, log: Mutex::new(vec![]) };
    let registry = ScriptedRegistry { rt: reg, script, calls: Mutex::new(vec![]) };
    let rtm = tokio::runtime::Builder::new_current_thread().enable_all().start_paused(true).build().unwrap();
    let out = if op == "fetch.missing" {
        let pkgs: Vec<_> = names.iter().map(|n| pkg(n, "1.0.0", reg)).collect();
        let fetched = rtm.block_on(fetch_missing_packages(&storer, &registry, &pkgs));
        format!("fetched={}", list(&fetched))
    } else {
        // what Backend::spawn_background_refresh does for one registry type
        match storer.get_packages_needing_refresh() {
            Err(_) => "refresh-query-failed".to_string(),
            Ok(all) => {
                let mine: Vec<PackageId> = all.into_iter().filter(|p| p.registry_type == reg).collect();
                rtm.block_on(refresh_packages(&storer, &registry, mine));
                "done".to_string()
            }
        }
    };
    let mut calls = registry.calls.lock().unwrap().clone();
    if op == "fetch.refresh" {
        calls.sort();
    }
    Some(format!("{} requested={}", out, list(&calls)))
}
