//! Checker / diagnostics stream: real Cache + real matcher + real generate_diagnostics
//! (through a one-package stub parser), returning the reads it was computed from.
use crate::ops_basic::matcher_for;
use crate::ops_cache::list;
use crate::util::*;
use std::collections::HashMap;
use tower_lsp::lsp_types::DiagnosticSeverity;
use version_lsp::lsp::diagnostics::generate_diagnostics;
use version_lsp::parser::traits::{ParseError, Parser};
use version_lsp::parser::types::{PackageInfo, RegistryType};
use version_lsp::version::cache::Cache;
use version_lsp::version::checker::{VersionStatus, VersionStorer, compare_version};

pub struct StubParser {
    pub pkgs: Vec<PackageInfo>,
}
impl Parser for StubParser {
    fn parse(&self, _content: &str) -> Result<Vec<PackageInfo>, ParseError> {
        Ok(self.pkgs.clone())
    }
}

pub fn pkg(name: &str, version: &str, rt: RegistryType) -> PackageInfo {
    PackageInfo {
        name: name.to_string(),
        version: version.to_string(),
        commit_hash: None,
        registry_type: rt,
        start_offset: 10,
        end_offset: 10 + version.len(),
        line: 1,
        column: 4,
        extra_info: None,
    }
}

pub fn status_str(s: VersionStatus) -> &'static str {
    match s {
        VersionStatus::Latest => "latest",
        VersionStatus::Outdated => "outdated",
        VersionStatus::Newer => "newer",
        VersionStatus::Invalid => "invalid",
        VersionStatus::NotInCache => "notincache",
        VersionStatus::NotFound => "notfound",
    }
}

/// diag <eco> <ip T/F> <nspecs> spec* <ntags> (<tag> <version>)* <nbatches> (<n> v*)*
/// All specs are dependencies on the SAME package in ONE manifest (one generate_diagnostics call).
/// -> "<latest> <rows> | <status> <diag> <tagres> ; <status> <diag> <tagres> ; ..."
pub fn dispatch(op: &str, f: &[String]) -> Option<String> {
    if op != "diag" {
        return None;
    }
    let m = matcher_for(&f[0]);
    let rt = m.registry_type();
    let ip = f[1] == "T";
    let ns: usize = f[2].parse().unwrap();
    let specs: Vec<String> = f[3..3 + ns].to_vec();
    let dir = tempfile::Builder::new().prefix("vlsp-verif-").tempdir().expect("tempdir");
    let cache = Cache::new(&dir.path().join("versions.db"), 1000, ip).expect("cache");
    let name = "pkg";
    let mut i = 3 + ns;
    let ntags: usize = f[i].parse().unwrap();
    i += 1;
    let mut tags = HashMap::new();
    for _ in 0..ntags {
        tags.insert(f[i].clone(), f[i + 1].clone());
        i += 2;
    }
    let nb: usize = f[i].parse().unwrap();
    i += 1;
    for _ in 0..nb {
        let n: usize = f[i].parse().unwrap();
        i += 1;
        let vs: Vec<String> = f[i..i + n].to_vec();
        i += n;
        cache.replace_versions(rt, name, vs).expect("replace");
    }
    if !tags.is_empty() {
        VersionStorer::save_dist_tags(&cache, rt, name, &tags).expect("tags");
    }
    let latest = cache.get_latest_version(rt, name).expect("latest");
    let rows = VersionStorer::get_versions(&cache, rt, name).expect("rows");
    let mut pkgs = Vec::new();
    for (k, spec) in specs.iter().enumerate() {
        let mut p = pkg(name, spec, rt);
        p.line = k;
        pkgs.push(p);
    }
    let parser = StubParser { pkgs };
    let diags = generate_diagnostics(&parser, &*m, &cache, "");
    let mut out = format!("{} {} |", opt(latest), list(&rows));
    for (k, spec) in specs.iter().enumerate() {
        let tagres = VersionStorer::get_dist_tag(&cache, rt, name, spec).expect("tag");
        let res = compare_version(&cache, &*m, name, spec).expect("compare");
        let mine: Vec<_> = diags.iter().filter(|d| d.range.start.line as usize == k).collect();
        let d = match mine.as_slice() {
            [] => "-".to_string(),
            [d] => format!(
                "{}:{}",
                match d.severity {
                    Some(DiagnosticSeverity::WARNING) => "W",
                    Some(DiagnosticSeverity::ERROR) => "E",
                    _ => "?",
                },
                hex(&d.message)
            ),
            _ => "MANY".to_string(),
        };
        out.push_str(&format!(" {} {} {} ;", status_str(res.status), d, opt(tagres)));
    }
    Some(out)
}
