//! C06: the whole synchronous pipeline of a request on arbitrary text — Parser::parse, generate_diagnostics,
//! PackageIndex::find_at_position + generate_bump_code_actions at many cursor positions — over a storer that
//! knows EVERY package name (so that no branch is skipped because the name is unknown).
use crate::ops_action::parser_for;
use crate::ops_basic::matcher_for;
use std::collections::HashMap;
use tower_lsp::lsp_types::{Position, Url};
use version_lsp::lsp::code_action::{PackageIndex, generate_bump_code_actions, locate_version_in_token};
use version_lsp::lsp::diagnostics::generate_diagnostics;
use version_lsp::parser::types::{PackageInfo, RegistryType};
use version_lsp::version::cache::PackageId;
use version_lsp::version::checker::VersionStorer;
use version_lsp::version::error::CacheError;

pub struct AnyStorer {
    pub latest: Option<String>,
    pub versions: Vec<String>,
    pub tags: HashMap<String, String>,
}

impl VersionStorer for AnyStorer {
    fn get_latest_version(&self, _: RegistryType, _: &str) -> Result<Option<String>, CacheError> { Ok(self.latest.clone()) }
    fn get_versions(&self, _: RegistryType, _: &str) -> Result<Vec<String>, CacheError> { Ok(self.versions.clone()) }
    fn version_exists(&self, _: RegistryType, _: &str, v: &str) -> Result<bool, CacheError> { Ok(self.versions.iter().any(|x| x == v)) }
    fn replace_versions(&self, _: RegistryType, _: &str, _: Vec<String>) -> Result<(), CacheError> { Ok(()) }
    fn get_packages_needing_refresh(&self) -> Result<Vec<PackageId>, CacheError> { Ok(vec![]) }
    fn try_start_fetch(&self, _: RegistryType, _: &str) -> Result<bool, CacheError> { Ok(false) }
    fn finish_fetch(&self, _: RegistryType, _: &str) -> Result<(), CacheError> { Ok(()) }
    fn get_dist_tag(&self, _: RegistryType, _: &str, t: &str) -> Result<Option<String>, CacheError> { Ok(self.tags.get(t).cloned()) }
    fn save_dist_tags(&self, _: RegistryType, _: &str, _: &HashMap<String, String>) -> Result<(), CacheError> { Ok(()) }
    fn filter_packages_not_in_cache(&self, _: RegistryType, _: &[String]) -> Result<Vec<String>, CacheError> { Ok(vec![]) }
    fn mark_not_found(&self, _: RegistryType, _: &str) -> Result<(), CacheError> { Ok(()) }
}

fn storer(f: &[String]) -> AnyStorer {
    // <latest|-> <nvs> v* (tag value)*
    let latest = if f[0] == "-" { None } else { Some(f[0][1..].to_string()) };
    let n: usize = f[1].parse().unwrap();
    let versions = f[2..2 + n].to_vec();
    let mut tags = HashMap::new();
    let mut i = 2 + n;
    while i + 1 < f.len() { tags.insert(f[i].clone(), f[i + 1].clone()); i += 2; }
    AnyStorer { latest, versions, tags }
}

pub fn dispatch(op: &str, f: &[String]) -> Option<String> {
    Some(match op {
        // fz.doc <eco> <text> <storer…> : "p=<packages> d=<diagnostics> a=<actions offered over all probed positions> pos=<positions probed>"
        // diag.ranges <eco> <text> : the ranges of the diagnostics generate_diagnostics produces when NO declared version exists
        // (every package with a valid or invalid spec gets an error diagnostic): "n=<packages> <line>:<c1>-<c2>;…"
        "diag.ranges" => {
            let parser = parser_for(&f[0]);
            let matcher = matcher_for(&f[0]);
            let text = &f[1];
            let st = AnyStorer { latest: Some("0.0.0-verif.none".into()), versions: vec!["0.0.0-verif.none".into()], tags: HashMap::new() };
            let n = parser.parse(text).map(|p| p.len()).unwrap_or(0);
            let diags = generate_diagnostics(&*parser, &*matcher, &st, text);
            let ds: Vec<String> = diags.iter().map(|d| format!("{}:{}-{}:{}", d.range.start.line, d.range.start.character, d.range.end.line, d.range.end.character)).collect();
            format!("n={} {}", n, ds.join(";"))
        }
        "fz.doc" => {
            let parser = parser_for(&f[0]);
            let matcher = matcher_for(&f[0]);
            let text = &f[1];
            let st = storer(&f[2..]);
            let pkgs = parser.parse(text).unwrap_or_default();
            let diags = generate_diagnostics(&*parser, &*matcher, &st, text);
            let uri = Url::parse("file:///w/doc").unwrap();
            // as the handler does: packages are pointed at their version text, columns in UTF-16 units
            let located: Vec<PackageInfo> = pkgs.iter().filter_map(|p| locate_version_in_token(p, text)).collect();
            let index = PackageIndex::new(&located);
            let mut acts = 0usize;
            let mut probed = 0usize;
            // every package's own range (start, middle, end, one past), plus every line at columns 0 and 10_000
            let nlines = text.split('\n').count() as u32;
            let mut positions: Vec<Position> = Vec::new();
            for p in &pkgs {
                let l = p.line as u32;
                let c = p.column as u32;
                let w = (p.end_offset.wrapping_sub(p.start_offset)) as u32;
                for ch in [c, c.wrapping_add(w / 2), c.wrapping_add(w), c.wrapping_add(w).wrapping_add(1), c.wrapping_sub(1)] {
                    positions.push(Position::new(l, ch));
                }
            }
            for l in 0..nlines.min(200) {
                positions.push(Position::new(l, 0));
                positions.push(Position::new(l, 10_000));
            }
            positions.push(Position::new(u32::MAX, u32::MAX));
            for pos in positions {
                probed += 1;
                if let Some(p) = index.find_at_position(pos) {
                    acts += generate_bump_code_actions(&st, p, &uri).len();
                }
            }
            // the diagnostic ranges must at least be constructible
            let bad = diags.iter().filter(|d| d.range.start.line != d.range.end.line).count();
            format!("p={} d={} a={} pos={} multiline={}", pkgs.len(), diags.len(), acts, probed, bad)
        }
        // fz.match <matcher> <spec> <latest> v* : both matcher entry points on arbitrary strings
        "fz.match" => {
            let m = matcher_for(&f[0]);
            let e = m.version_exists(&f[1], &f[3..]);
            let c = m.compare_to_latest(&f[1], &f[2]);
            let c2 = m.compare_to_latest(&f[2], &f[1]);
            format!("{} {:?} {:?}", e, c, c2)
        }
        // ts.dump <eco> <text> : the syntax tree the parser of that format walks (preorder):
        // depth,kindhex,startByte,endByte,startRow,startCol,endRow,endCol,field|-,flags(n=named m=missing e=error x=extra) ; …
        "ts.dump" => {
            let mut parser = tree_sitter::Parser::new();
            let lang: tree_sitter::Language = match f[0].as_str() {
                "npm" | "jsr" => tree_sitter_json::LANGUAGE.into(),
                "crates" | "pypi" => tree_sitter_toml_ng::LANGUAGE.into(),
                "gha" | "pnpm" => tree_sitter_yaml::LANGUAGE.into(),
                _ => return Some("-".into()),
            };
            parser.set_language(&lang).unwrap();
            let Some(tree) = parser.parse(&f[1], None) else { return Some("-".into()) };
            let mut out = String::new();
            let mut cursor = tree.walk();
            let mut depth = 0usize;
            loop {
                let n = cursor.node();
                let mut flags = String::new();
                if n.is_named() { flags.push('n'); }
                if n.is_missing() { flags.push('m'); }
                if n.is_error() { flags.push('e'); }
                if n.is_extra() { flags.push('x'); }
                out.push_str(&format!("{},{},{},{},{},{},{},{},{},{};", depth, crate::util::hex(n.kind()), n.start_byte(), n.end_byte(),
                    n.start_position().row, n.start_position().column, n.end_position().row, n.end_position().column,
                    cursor.field_name().unwrap_or("-"), if flags.is_empty() { "-".to_string() } else { flags }));
                if cursor.goto_first_child() { depth += 1; continue; }
                loop {
                    if cursor.goto_next_sibling() { break; }
                    if !cursor.goto_parent() { return Some(out); }
                    depth -= 1;
                }
            }
        }
        // pep440 <spec> <version> : what the PEP 440 library says: "<specOk><verOk><contains>" (contains = 0 unless both parse)
        "pep440" => {
            use std::str::FromStr;
            use pep508_rs::pep440_rs::{Version, VersionSpecifiers};
            let sp = std::panic::catch_unwind(|| VersionSpecifiers::from_str(&f[0]).ok()).unwrap_or(None);
            let v = std::panic::catch_unwind(|| Version::from_str(&f[1]).ok()).unwrap_or(None);
            let c = match (&sp, &v) { (Some(s), Some(v)) => s.contains(v), _ => false };
            format!("{}{}{}", sp.is_some() as u8, v.is_some() as u8, c as u8)
        }
        // pep440.le <a> <b> : "<aOk><bOk><a <= b>"
        "pep440.le" => {
            use std::str::FromStr;
            use pep508_rs::pep440_rs::Version;
            let a = Version::from_str(&f[0]).ok();
            let b = Version::from_str(&f[1]).ok();
            let le = match (&a, &b) { (Some(a), Some(b)) => a <= b, _ => false };
            format!("{}{}{}", a.is_some() as u8, b.is_some() as u8, le as u8)
        }
        // pep508 <requirement> : what the PEP 508 library makes of a requirement string: "P<name>|<specifiers>" / "U" (URL) / "E" / "PANIC"
        "pep508" => {
            use std::str::FromStr;
            match std::panic::catch_unwind(|| pep508_rs::Requirement::<pep508_rs::VerbatimUrl>::from_str(&f[0])) {
                Err(_) => "X".into(),
                Ok(Err(_)) => "E".into(),
                Ok(Ok(req)) => match &req.version_or_url {
                    Some(pep508_rs::VersionOrUrl::Url(_)) => "U".into(),
                    Some(pep508_rs::VersionOrUrl::VersionSpecifier(s)) => format!("P{}|{}", crate::util::hex(&req.name.to_string()), crate::util::hex(&s.to_string())),
                    None => format!("P{}|", crate::util::hex(&req.name.to_string())),
                },
            }
        }
        _ => return None,
    })
}
