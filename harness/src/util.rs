pub fn unhex(s: &str) -> String {
    let b = s.as_bytes();
    let mut v = Vec::with_capacity(b.len() / 2);
    let hv = |c: u8| -> u8 {
        match c {
            b'0'..=b'9' => c - b'0',
            b'a'..=b'f' => c - b'a' + 10,
            b'A'..=b'F' => c - b'A' + 10,
            _ => panic!("bad hex"),
        }
    };
    let mut i = 0;
    while i + 1 < b.len() {
        v.push(hv(b[i]) * 16 + hv(b[i + 1]));
        i += 2;
    }
    String::from_utf8(v).expect("utf8 field")
}

pub fn hex(s: &str) -> String {
    let mut o = String::with_capacity(s.len() * 2);
    for b in s.as_bytes() {
        o.push_str(&format!("{:02x}", b));
    }
    o
}

pub fn tf(b: bool) -> &'static str {
    if b { "T" } else { "F" }
}

pub fn opt(o: Option<String>) -> String {
    match o {
        Some(s) => format!("S{}", hex(&s)),
        None => "-".to_string(),
    }
}
