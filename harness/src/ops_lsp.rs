//! LSP stream: the real Backend inside an in-process LspService (tokio current-thread runtime with a
//! paused clock), real Cache, real parsers and matchers, gate-controlled registries: every
//! fetch_all_versions parks until the scenario releases it, so the order of replies relative to edits
//! is imposed exactly.  Server->client traffic is returned after every step.
use crate::ops_action::parser_for;
use crate::ops_cache::rt as rt_of;
use crate::util::*;
use futures::{FutureExt, SinkExt, StreamExt};
use std::collections::HashMap;
use std::sync::{Arc, Mutex};
use tokio::sync::oneshot;
use tower::Service;
use tower_lsp::jsonrpc::{Request, Response};
use tower_lsp::lsp_types::*;
use tower_lsp::{ClientSocket, LspService};
use version_lsp::lsp::backend::Backend;
use version_lsp::lsp::resolver::PackageResolver;
use version_lsp::parser::types::RegistryType;
use version_lsp::parser::*;
use version_lsp::version::cache::Cache;
use version_lsp::version::checker::VersionStorer;
use version_lsp::version::error::RegistryError;
use version_lsp::version::matchers::*;
use version_lsp::version::registry::Registry;
use version_lsp::version::types::PackageVersions;

type Gates = Arc<Mutex<Vec<(RegistryType, String, oneshot::Sender<Result<PackageVersions, RegistryError>>)>>>;

struct GatedRegistry {
    rt: RegistryType,
    gates: Gates,
}

#[async_trait::async_trait]
impl Registry for GatedRegistry {
    fn registry_type(&self) -> RegistryType {
        self.rt
    }
    async fn fetch_all_versions(&self, name: &str) -> Result<PackageVersions, RegistryError> {
        let (tx, rx) = oneshot::channel();
        self.gates.lock().unwrap().push((self.rt, name.to_string(), tx));
        match rx.await {
            Ok(r) => r,
            Err(_) => Err(RegistryError::InvalidResponse("gate dropped".into())),
        }
    }
}

enum Svc {
    Cache(LspService<Backend<Cache>>),
}

pub struct Session {
    rt: tokio::runtime::Runtime,
    svc: Svc,
    socket: ClientSocket,
    pending: Vec<String>,
    gates: Gates,
    pub cache: Option<Arc<Cache>>,
    _dir: Option<tempfile::TempDir>,
    config_answer: String,
    next_id: i64,
}

#[derive(Default)]
pub struct LspState {
    pub s: Option<Session>,
    pub config_answer: String,
}

fn resolvers(gates: &Gates) -> HashMap<RegistryType, PackageResolver> {
    let mut m = HashMap::new();
    let g = |rt| -> Arc<dyn Registry> { Arc::new(GatedRegistry { rt, gates: gates.clone() }) };
    m.insert(RegistryType::Npm, PackageResolver::new(Arc::new(PackageJsonParser::new()), Arc::new(NpmVersionMatcher), g(RegistryType::Npm)));
    m.insert(RegistryType::CratesIo, PackageResolver::new(Arc::new(CargoTomlParser::new()), Arc::new(CratesVersionMatcher), g(RegistryType::CratesIo)));
    m.insert(RegistryType::GoProxy, PackageResolver::new(Arc::new(GoModParser::new()), Arc::new(GoVersionMatcher), g(RegistryType::GoProxy)));
    m.insert(RegistryType::GitHubActions, PackageResolver::new(Arc::new(GitHubActionsParser::new()), Arc::new(GitHubActionsMatcher), g(RegistryType::GitHubActions)));
    m.insert(RegistryType::PnpmCatalog, PackageResolver::new(Arc::new(PnpmWorkspaceParser), Arc::new(PnpmCatalogMatcher), g(RegistryType::PnpmCatalog)));
    m.insert(RegistryType::Jsr, PackageResolver::new(Arc::new(DenoJsonParser::new()), Arc::new(JsrVersionMatcher), g(RegistryType::Jsr)));
    m.insert(RegistryType::PyPI, PackageResolver::new(Arc::new(PyprojectTomlParser::new()), Arc::new(PypiVersionMatcher), g(RegistryType::PyPI)));
    m
}

fn diag_str(d: &Diagnostic) -> String {
    format!(
        "{}:{}@{}:{}-{}:{}",
        match d.severity { Some(DiagnosticSeverity::WARNING) => "W", Some(DiagnosticSeverity::ERROR) => "E", _ => "?" },
        hex(&d.message), d.range.start.line, d.range.start.character, d.range.end.line, d.range.end.character
    )
}

/// one client-bound message: record it (and answer configuration requests)
async fn handle_msg(socket_tx: &mut ClientSocket, req: Request, answer: &str, out: &mut Vec<String>) {
    match req.method() {
        "textDocument/publishDiagnostics" => {
            let p: PublishDiagnosticsParams = serde_json::from_value(req.params().unwrap().clone()).unwrap();
            let ds: Vec<String> = p.diagnostics.iter().map(diag_str).collect();
            out.push(format!("pub {} [{}]", hex(p.uri.as_str()), ds.join(",")));
        }
        "window/showMessage" => {
            let p: ShowMessageParams = serde_json::from_value(req.params().unwrap().clone()).unwrap();
            let t = match p.typ { MessageType::ERROR => "error", MessageType::WARNING => "warning", MessageType::INFO => "info", _ => "log" };
            out.push(format!("show {} {}", t, hex(&p.message)));
        }
        "workspace/configuration" => {
            out.push("cfgreq".to_string());
            let id = req.id().cloned().unwrap();
            let resp = if answer == "FAIL" || answer.is_empty() {
                Response::from_error(id, tower_lsp::jsonrpc::Error::method_not_found())
            } else if answer == "NONE" {
                Response::from_ok(id, serde_json::json!([]))
            } else {
                let v: serde_json::Value = serde_json::from_str(answer).expect("config json");
                Response::from_ok(id, serde_json::json!([v]))
            };
            let _ = socket_tx.send(resp).await;
        }
        _ => {}
    }
}

impl Session {
    /// send one request/notification; client-bound traffic is drained concurrently (the server's
    /// channel to the client is bounded, a handler blocks on it otherwise)
    fn call(&mut self, req: Request) -> Option<Response> {
        let Svc::Cache(svc) = &mut self.svc;
        let answer = self.config_answer.clone();
        let socket = &mut self.socket;
        let pending = &mut self.pending;
        self.rt.block_on(async {
            let fut = svc.call(req);
            tokio::pin!(fut);
            loop {
                let msg = tokio::select! {
                    r = &mut fut => break r.unwrap(),
                    Some(msg) = socket.next() => msg,
                };
                handle_msg(socket, msg, &answer, pending).await;
            }
        })
    }

    /// run until nothing moves: drain client-bound traffic, answer configuration requests, let timers fire
    fn settle(&mut self) -> Vec<String> {
        let answer = self.config_answer.clone();
        let socket = &mut self.socket;
        let pending = &mut self.pending;
        self.rt.block_on(async {
            let mut idle = 0;
            while idle < 6 {
                let mut moved = false;
                while let Some(Some(req)) = socket.next().now_or_never() {
                    moved = true;
                    handle_msg(socket, req, &answer, pending).await;
                }
                for _ in 0..20 {
                    tokio::task::yield_now().await;
                }
                tokio::time::advance(std::time::Duration::from_millis(50)).await;
                if moved { idle = 0 } else { idle += 1 }
            }
        });
        let mut out: Vec<String> = std::mem::take(&mut self.pending);
        let parked: Vec<String> = {
            let g = self.gates.lock().unwrap();
            let mut v: Vec<String> = g.iter().map(|(r, n, _)| format!("{}/{}", r.as_str(), hex(n))).collect();
            v.sort();
            v
        };
        out.push(format!("parked=[{}]", parked.join(",")));
        out
    }
}

pub fn dispatch(st: &mut LspState, op: &str, f: &[String]) -> Option<String> {
    if !op.starts_with("l.") {
        return None;
    }
    Some(match op {
        "l.config" => {
            st.config_answer = f[0].clone();
            "ok".into()
        }
        // l.start <ip T/F> : Backend::build over a fresh real Cache with gated registries
        "l.start" => {
            st.s = None;
            version_lsp::verif::set_now_ms(Some(1000));
            let rt = tokio::runtime::Builder::new_current_thread().enable_all().start_paused(true).build().unwrap();
            let dir = tempfile::Builder::new().prefix("vlsp-verif-").tempdir().expect("tempdir");
            let cache = Arc::new(Cache::new(&dir.path().join("versions.db"), 86_400_000, f[0] == "T").expect("cache"));
            let gates: Gates = Arc::new(Mutex::new(Vec::new()));
            let res = resolvers(&gates);
            let c2 = cache.clone();
            let (svc, socket) = { let _g = rt.enter(); LspService::build(move |client| Backend::build(client, c2.clone(), res)).finish() };
            st.s = Some(Session { rt, svc: Svc::Cache(svc), socket, pending: Vec::new(), gates, cache: Some(cache), _dir: Some(dir), config_answer: st.config_answer.clone(), next_id: 1 });
            "ok".into()
        }
        "l.now" => {
            version_lsp::verif::set_now_ms(Some(f[0].parse().unwrap()));
            "ok".into()
        }
        "l.cache" => {
            let s = st.s.as_ref().unwrap();
            s.cache.as_ref().unwrap().replace_versions(rt_of(&f[0]), &f[1], f[2..].to_vec()).expect("replace");
            "ok".into()
        }
        "l.tags" => {
            let s = st.s.as_ref().unwrap();
            let mut m = HashMap::new();
            let mut i = 2;
            while i + 1 < f.len() { m.insert(f[i].clone(), f[i + 1].clone()); i += 2; }
            VersionStorer::save_dist_tags(&**s.cache.as_ref().unwrap(), rt_of(&f[0]), &f[1], &m).expect("tags");
            "ok".into()
        }
        "l.init" => {
            let s = st.s.as_mut().unwrap();
            let id = s.next_id; s.next_id += 1;
            s.call(Request::build("initialize").id(id).params(serde_json::to_value(InitializeParams::default()).unwrap()).finish());
            s.call(Request::build("initialized").params(serde_json::to_value(InitializedParams {}).unwrap()).finish());
            s.settle().join(" ; ")
        }
        "l.open" => {
            let s = st.s.as_mut().unwrap();
            let Ok(uri) = f[0].parse::<Url>() else { return Some("BAD-URI".into()) };
            let p = DidOpenTextDocumentParams { text_document: TextDocumentItem { uri, language_id: "x".into(), version: 1, text: f[1].clone() } };
            s.call(Request::build("textDocument/didOpen").params(serde_json::to_value(p).unwrap()).finish());
            s.settle().join(" ; ")
        }
        "l.change" => {
            let s = st.s.as_mut().unwrap();
            let Ok(uri) = f[0].parse::<Url>() else { return Some("BAD-URI".into()) };
            let p = DidChangeTextDocumentParams {
                text_document: VersionedTextDocumentIdentifier { uri, version: 2 },
                content_changes: vec![TextDocumentContentChangeEvent { range: None, range_length: None, text: f[1].clone() }],
            };
            s.call(Request::build("textDocument/didChange").params(serde_json::to_value(p).unwrap()).finish());
            s.settle().join(" ; ")
        }
        "l.close" => {
            let s = st.s.as_mut().unwrap();
            let Ok(uri) = f[0].parse::<Url>() else { return Some("BAD-URI".into()) };
            let p = DidCloseTextDocumentParams { text_document: TextDocumentIdentifier { uri } };
            s.call(Request::build("textDocument/didClose").params(serde_json::to_value(p).unwrap()).finish());
            s.settle().join(" ; ")
        }
        "l.action" => {
            let s = st.s.as_mut().unwrap();
            let Ok(uri) = f[0].parse::<Url>() else { return Some("BAD-URI".into()) };
            let (line, ch): (u32, u32) = (f[1].parse().unwrap(), f[2].parse().unwrap());
            let p = CodeActionParams {
                text_document: TextDocumentIdentifier { uri },
                range: Range { start: Position { line, character: ch }, end: Position { line, character: ch } },
                context: CodeActionContext { diagnostics: vec![], only: None, trigger_kind: None },
                work_done_progress_params: Default::default(), partial_result_params: Default::default(),
            };
            let id = s.next_id; s.next_id += 1;
            let resp = s.call(Request::build("textDocument/codeAction").id(id).params(serde_json::to_value(p).unwrap()).finish());
            let body = match resp {
                None => "act NORESP".to_string(),
                Some(r) => match r.result() {
                    None => "act ERR".to_string(),
                    Some(v) if v.is_null() => "act none".to_string(),
                    Some(v) => {
                        let acts: Vec<CodeActionOrCommand> = serde_json::from_value(v.clone()).unwrap_or_default();
                        let ss: Vec<String> = acts.iter().map(|a| match a {
                            CodeActionOrCommand::CodeAction(ca) => {
                                let edits: Vec<&TextEdit> = ca.edit.as_ref().and_then(|e| e.changes.as_ref()).map(|c| c.values().flatten().collect()).unwrap_or_default();
                                let e = edits[0];
                                format!("{}|{}|{}|{}|{}", hex(&ca.title), e.range.start.line, e.range.start.character, e.range.end.character, hex(&e.new_text))
                            }
                            _ => "CMD".to_string(),
                        }).collect();
                        format!("act [{}]", ss.join(","))
                    }
                },
            };
            let mut out = vec![body];
            out.extend(s.settle());
            out.join(" ; ")
        }
        // l.reply <reg> <name> <ok|nf|rl|inv> v* [| tag v ...]
        "l.reply" => {
            let s = st.s.as_mut().unwrap();
            let r = rt_of(&f[0]);
            let tx = {
                let mut g = s.gates.lock().unwrap();
                g.iter().position(|(rr, n, _)| *rr == r && *n == f[1]).map(|i| g.remove(i).2)
            };
            match tx {
                None => "noparked".into(),
                Some(tx) => {
                    let res = match f[2].as_str() {
                        "ok" => {
                            let split = f[3..].iter().position(|x| x == "|").map(|p| p + 3).unwrap_or(f.len());
                            let vs = f[3..split].to_vec();
                            let mut tags = HashMap::new();
                            let mut i = split + 1;
                            while i + 1 < f.len() { tags.insert(f[i].clone(), f[i + 1].clone()); i += 2; }
                            Ok(PackageVersions::with_dist_tags(vs, tags))
                        }
                        "nf" => Err(RegistryError::NotFound(f[1].clone())),
                        "rl" => Err(RegistryError::RateLimited { retry_after_secs: None }),
                        _ => Err(RegistryError::InvalidResponse("scripted".into())),
                    };
                    let _ = tx.send(res);
                    s.settle().join(" ; ")
                }
            }
        }
        "l.settle" => st.s.as_mut().unwrap().settle().join(" ; "),
        // l.parse <eco> <text> : what the real parser extracts (input of the server model)
        "l.parse" => {
            let ps = parser_for(&f[0]).parse(&f[1]).unwrap_or_default();
            ps.iter().map(crate::ops_action::pkg_str).collect::<Vec<_>>().join(";")
        }
        "l.dump" => crate::ops_cache::dump(&st.s.as_ref().unwrap()._dir.as_ref().unwrap().path().join("versions.db")),
        _ => return None,
    })
}
