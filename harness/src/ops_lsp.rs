//! LSP stream: the real Backend inside an in-process LspService (tokio current-thread runtime with a
//! paused clock), real Cache, real parsers and matchers, gate-controlled registries: every
//! fetch_all_versions parks until the scenario releases it, so the order of replies relative to edits
//! is imposed exactly.  Server->client traffic is returned after every step.
use crate::ops_action::parser_for;
use crate::ops_cache::rt as rt_of;
use crate::util::*;
use futures::{FutureExt, SinkExt, StreamExt};
use std::collections::HashMap;
use std::sync::{Arc, Mutex};
use tokio::sync::oneshot;
use tower::Service;
use tower_lsp::jsonrpc::{Request, Response};
use tower_lsp::lsp_types::*;
use tower_lsp::{ClientSocket, LspService};
use version_lsp::lsp::backend::Backend;
use version_lsp::lsp::resolver::PackageResolver;
use version_lsp::parser::types::RegistryType;
use version_lsp::parser::*;
use version_lsp::version::cache::Cache;
use version_lsp::version::checker::VersionStorer;
use version_lsp::version::error::RegistryError;
use version_lsp::version::matchers::*;
use version_lsp::version::registry::Registry;
use version_lsp::version::types::PackageVersions;

type Gates = Arc<Mutex<Vec<(RegistryType, String, oneshot::Sender<Result<PackageVersions, RegistryError>>)>>>;

struct GatedRegistry {
    rt: RegistryType,
    gates: Gates,
}

#[async_trait::async_trait]
impl Registry for GatedRegistry {
    fn registry_type(&self) -> RegistryType {
        self.rt
    }
    async fn fetch_all_versions(&self, name: &str) -> Result<PackageVersions, RegistryError> {
        let (tx, rx) = oneshot::channel();
        self.gates.lock().unwrap().push((self.rt, name.to_string(), tx));
        match rx.await {
            Ok(r) => r,
            Err(_) => Err(RegistryError::InvalidResponse("gate dropped".into())),
        }
    }
}

enum Svc {
    Cache(LspService<Backend<Cache>>),
    Faulty(LspService<Backend<crate::ops_fetch::FaultyStorer>>),
}

pub struct Session {
    rt: tokio::runtime::Runtime,
    svc: Svc,
    socket: ClientSocket,
    pending: Vec<String>,
    gates: Gates,
    pub cache: Option<Arc<Cache>>,
    _dir: Option<tempfile::TempDir>,
    config_answer: String,
    next_id: i64,
}

#[derive(Default)]
pub struct LspState {
    pub s: Option<Session>,
    pub config_answer: String,
    pub lock: Option<rusqlite::Connection>,
}

fn resolvers(gates: &Gates) -> HashMap<RegistryType, PackageResolver> {
    let mut m = HashMap::new();
    let g = |rt| -> Arc<dyn Registry> { Arc::new(GatedRegistry { rt, gates: gates.clone() }) };
    m.insert(RegistryType::Npm, PackageResolver::new(Arc::new(PackageJsonParser::new()), Arc::new(NpmVersionMatcher), g(RegistryType::Npm)));
    m.insert(RegistryType::CratesIo, PackageResolver::new(Arc::new(CargoTomlParser::new()), Arc::new(CratesVersionMatcher), g(RegistryType::CratesIo)));
    m.insert(RegistryType::GoProxy, PackageResolver::new(Arc::new(GoModParser::new()), Arc::new(GoVersionMatcher), g(RegistryType::GoProxy)));
    m.insert(RegistryType::GitHubActions, PackageResolver::new(Arc::new(GitHubActionsParser::new()), Arc::new(GitHubActionsMatcher), g(RegistryType::GitHubActions)));
    m.insert(RegistryType::PnpmCatalog, PackageResolver::new(Arc::new(PnpmWorkspaceParser), Arc::new(PnpmCatalogMatcher), g(RegistryType::PnpmCatalog)));
    m.insert(RegistryType::Jsr, PackageResolver::new(Arc::new(DenoJsonParser::new()), Arc::new(JsrVersionMatcher), g(RegistryType::Jsr)));
    m.insert(RegistryType::PyPI, PackageResolver::new(Arc::new(PyprojectTomlParser::new()), Arc::new(PypiVersionMatcher), g(RegistryType::PyPI)));
    m
}

fn diag_str(d: &Diagnostic) -> String {
    format!(
        "{}:{}@{}:{}-{}:{}",
        match d.severity { Some(DiagnosticSeverity::WARNING) => "W", Some(DiagnosticSeverity::ERROR) => "E", _ => "?" },
        hex(&d.message), d.range.start.line, d.range.start.character, d.range.end.line, d.range.end.character
    )
}

/// one client-bound message: record it (and answer configuration requests)
async fn handle_msg(socket_tx: &mut ClientSocket, req: Request, answer: &str, out: &mut Vec<String>) {
    match req.method() {
        "textDocument/publishDiagnostics" => {
            let p: PublishDiagnosticsParams = serde_json::from_value(req.params().unwrap().clone()).unwrap();
            let ds: Vec<String> = p.diagnostics.iter().map(diag_str).collect();
            out.push(format!("pub {} [{}]", hex(p.uri.as_str()), ds.join(",")));
        }
        "window/showMessage" => {
            let p: ShowMessageParams = serde_json::from_value(req.params().unwrap().clone()).unwrap();
            let t = match p.typ { MessageType::ERROR => "error", MessageType::WARNING => "warning", MessageType::INFO => "info", _ => "log" };
            out.push(format!("show {} {}", t, hex(&p.message)));
        }
        "workspace/configuration" if answer.starts_with("HOLD") => {
            // a slow client: the request is noted, the answer comes later (l.initlate)
            out.push("cfgreq".to_string());
            HELD_CONFIG.lock().unwrap().push(req.id().cloned().unwrap());
        }
        "workspace/configuration" => {
            out.push("cfgreq".to_string());
            let id = req.id().cloned().unwrap();
            let resp = if answer == "FAIL" || answer.is_empty() {
                Response::from_error(id, tower_lsp::jsonrpc::Error::method_not_found())
            } else if answer == "NONE" {
                Response::from_ok(id, serde_json::json!([]))
            } else {
                let v: serde_json::Value = serde_json::from_str(answer).expect("config json");
                Response::from_ok(id, serde_json::json!([v]))
            };
            let _ = socket_tx.send(resp).await;
        }
        _ => {}
    }
}

static HELD_CONFIG: Mutex<Vec<tower_lsp::jsonrpc::Id>> = Mutex::new(Vec::new());

fn config_response(id: tower_lsp::jsonrpc::Id, answer: &str) -> Response {
    if answer == "FAIL" || answer.is_empty() {
        Response::from_error(id, tower_lsp::jsonrpc::Error::method_not_found())
    } else if answer == "NONE" {
        Response::from_ok(id, serde_json::json!([]))
    } else {
        let v: serde_json::Value = serde_json::from_str(answer).expect("config json");
        Response::from_ok(id, serde_json::json!([v]))
    }
}

impl Session {
    /// the client is slow: for `ms` of (virtual) time the configuration request stays unanswered, then it is answered
    fn settle_late(&mut self, ms: u64) -> Vec<String> {
        let real = std::mem::replace(&mut self.config_answer, "HOLD".to_string());
        {
            let socket = &mut self.socket;
            let pending = &mut self.pending;
            self.rt.block_on(async {
                let mut waited = 0u64;
                while waited < ms {
                    while let Some(Some(req)) = socket.next().now_or_never() {
                        handle_msg(socket, req, "HOLD", pending).await;
                    }
                    for _ in 0..20 { tokio::task::yield_now().await; }
                    tokio::time::advance(std::time::Duration::from_millis(100)).await;
                    waited += 100;
                }
                while let Some(Some(req)) = socket.next().now_or_never() {
                    handle_msg(socket, req, "HOLD", pending).await;
                }
                let held: Vec<_> = HELD_CONFIG.lock().unwrap().drain(..).collect();
                for id in held {
                    let _ = socket.send(config_response(id, &real)).await;
                }
            });
        }
        self.config_answer = real;
        self.settle()
    }

    /// send one request/notification; client-bound traffic is drained concurrently (the server's
    /// channel to the client is bounded, a handler blocks on it otherwise)
    fn call(&mut self, req: Request) -> Option<Response> {
        let answer = self.config_answer.clone();
        let socket = &mut self.socket;
        let pending = &mut self.pending;
        macro_rules! drive {
            ($svc:expr) => {
                self.rt.block_on(async {
                    let fut = $svc.call(req);
                    tokio::pin!(fut);
                    loop {
                        let msg = tokio::select! {
                            r = &mut fut => break r.unwrap(),
                            Some(msg) = socket.next() => msg,
                        };
                        handle_msg(socket, msg, &answer, pending).await;
                    }
                })
            };
        }
        match &mut self.svc {
            Svc::Cache(svc) => drive!(svc),
            Svc::Faulty(svc) => drive!(svc),
        }
    }

    /// run until nothing moves: drain client-bound traffic, answer configuration requests, let timers fire
    fn settle(&mut self) -> Vec<String> {
        let answer = self.config_answer.clone();
        let socket = &mut self.socket;
        let pending = &mut self.pending;
        self.rt.block_on(async {
            let mut idle = 0;
            while idle < 6 {
                let mut moved = false;
                while let Some(Some(req)) = socket.next().now_or_never() {
                    moved = true;
                    handle_msg(socket, req, &answer, pending).await;
                }
                for _ in 0..20 {
                    tokio::task::yield_now().await;
                }
                tokio::time::advance(std::time::Duration::from_millis(50)).await;
                if moved { idle = 0 } else { idle += 1 }
            }
        });
        let mut out: Vec<String> = std::mem::take(&mut self.pending);
        let parked: Vec<String> = {
            let g = self.gates.lock().unwrap();
            let mut v: Vec<String> = g.iter().map(|(r, n, _)| format!("{}/{}", r.as_str(), hex(n))).collect();
            v.sort();
            v
        };
        out.push(format!("parked=[{}]", parked.join(",")));
        out
    }
}

pub fn dispatch(st: &mut LspState, op: &str, f: &[String]) -> Option<String> {
    if !op.starts_with("l.") && !op.starts_with("fs.") && !op.starts_with("srv.") {
        return None;
    }
    if st.s.is_none() && matches!(op, "l.now" | "l.cache" | "l.tags" | "l.init" | "l.initlate" | "l.open" | "l.change" | "l.close" | "l.action" | "l.reply" | "l.settle" | "l.dump") {
        return Some("nosession".into());
    }
    Some(match op {
        "l.config" => {
            st.config_answer = f[0].clone();
            "ok".into()
        }
        // l.start <ip T/F> : Backend::build over a fresh real Cache with gated registries
        "l.start" => {
            st.s = None;
            version_lsp::verif::set_now_ms(Some(1000));
            let rt = tokio::runtime::Builder::new_current_thread().enable_all().start_paused(true).build().unwrap();
            let dir = tempfile::Builder::new().prefix("vlsp-verif-").tempdir().expect("tempdir");
            let cache = Arc::new(Cache::new(&dir.path().join("versions.db"), 86_400_000, f[0] == "T").expect("cache"));
            let gates: Gates = Arc::new(Mutex::new(Vec::new()));
            let res = resolvers(&gates);
            let c2 = cache.clone();
            let (svc, socket) = { let _g = rt.enter(); LspService::build(move |client| Backend::build(client, c2.clone(), res)).finish() };
            st.s = Some(Session { rt, svc: Svc::Cache(svc), socket, pending: Vec::new(), gates, cache: Some(cache), _dir: Some(dir), config_answer: st.config_answer.clone(), next_id: 1 });
            "ok".into()
        }
        // l.startprod <xdg_data_home> : the PRODUCTION constructor Backend::new under a controlled environment
        "l.startprod" => {
            st.s = None;
            version_lsp::verif::set_now_ms(Some(1000));
            unsafe { std::env::set_var("XDG_DATA_HOME", &f[0]); }
            unsafe { std::env::set_var("GITHUB_API_BASE_URL", "http://127.0.0.1:9"); }
            let rt = tokio::runtime::Builder::new_current_thread().enable_all().start_paused(true).build().unwrap();
            let gates: Gates = Arc::new(Mutex::new(Vec::new()));
            let (svc, socket) = { let _g = rt.enter(); LspService::new(Backend::new) };
            st.s = Some(Session { rt, svc: Svc::Cache(svc), socket, pending: Vec::new(), gates, cache: None, _dir: None, config_answer: st.config_answer.clone(), next_id: 1 });
            "ok".into()
        }
        // l.startfaulty <ip> <faults e.g. "L:lodash,V:*"> : Backend::build over a fault-injecting storer around a real Cache
        "l.startfaulty" => {
            st.s = None;
            version_lsp::verif::set_now_ms(Some(1000));
            let rt = tokio::runtime::Builder::new_current_thread().enable_all().start_paused(true).build().unwrap();
            let dir = tempfile::Builder::new().prefix("vlsp-verif-").tempdir().expect("tempdir");
            let cache = Arc::new(Cache::new(&dir.path().join("versions.db"), 86_400_000, f[0] == "T").expect("cache"));
            let mut faults = std::collections::HashSet::new();
            for item in f[1].split(',').filter(|x| !x.is_empty()) {
                let (site, name) = item.split_once(':').unwrap();
                faults.insert((name.to_string(), site.chars().next().unwrap()));
            }
            let storer = Arc::new(crate::ops_fetch::FaultyStorer { inner: cache.clone(), faults, log: Mutex::new(vec![]) });
            let gates: Gates = Arc::new(Mutex::new(Vec::new()));
            let res = resolvers(&gates);
            let (svc, socket) = { let _g = rt.enter(); LspService::build(move |client| Backend::build(client, storer.clone(), res)).finish() };
            st.s = Some(Session { rt, svc: Svc::Faulty(svc), socket, pending: Vec::new(), gates, cache: Some(cache), _dir: Some(dir), config_answer: st.config_answer.clone(), next_id: 1 });
            "ok".into()
        }
        // l.startfile <path> : Backend::build over Cache::new(<path>) — for damaged database files; "E:…" if it cannot be opened
        "l.startfile" => {
            st.s = None;
            version_lsp::verif::set_now_ms(Some(1000));
            let rt = tokio::runtime::Builder::new_current_thread().enable_all().start_paused(true).build().unwrap();
            match Cache::new(std::path::Path::new(&f[0]), 86_400_000, true) {
                Err(e) => format!("open-{}", crate::ops_cache::err_str(&e)),
                Ok(c) => {
                    let cache = Arc::new(c);
                    let gates: Gates = Arc::new(Mutex::new(Vec::new()));
                    let res = resolvers(&gates);
                    let c2 = cache.clone();
                    let (svc, socket) = { let _g = rt.enter(); LspService::build(move |client| Backend::build(client, c2.clone(), res)).finish() };
                    st.s = Some(Session { rt, svc: Svc::Cache(svc), socket, pending: Vec::new(), gates, cache: Some(cache), _dir: None, config_answer: st.config_answer.clone(), next_id: 1 });
                    "ok".into()
                }
            }
        }
        "l.now" => {
            version_lsp::verif::set_now_ms(Some(f[0].parse().unwrap()));
            "ok".into()
        }
        "l.cache" => {
            let s = st.s.as_ref().unwrap();
            s.cache.as_ref().unwrap().replace_versions(rt_of(&f[0]), &f[1], f[2..].to_vec()).expect("replace");
            "ok".into()
        }
        "l.tags" => {
            let s = st.s.as_ref().unwrap();
            let mut m = HashMap::new();
            let mut i = 2;
            while i + 1 < f.len() { m.insert(f[i].clone(), f[i + 1].clone()); i += 2; }
            VersionStorer::save_dist_tags(&**s.cache.as_ref().unwrap(), rt_of(&f[0]), &f[1], &m).expect("tags");
            "ok".into()
        }
        "l.init" => {
            let s = st.s.as_mut().unwrap();
            let id = s.next_id; s.next_id += 1;
            s.call(Request::build("initialize").id(id).params(serde_json::to_value(InitializeParams::default()).unwrap()).finish());
            s.call(Request::build("initialized").params(serde_json::to_value(InitializedParams {}).unwrap()).finish());
            s.settle().join(" ; ")
        }
        // l.initlate <ms> [regs…] : as l.init, but the client answers the configuration request only after <ms> of virtual time
        "l.initlate" => {
            let s = st.s.as_mut().unwrap();
            let id = s.next_id; s.next_id += 1;
            HELD_CONFIG.lock().unwrap().clear();
            let real = std::mem::replace(&mut s.config_answer, "HOLD".to_string());
            s.call(Request::build("initialize").id(id).params(serde_json::to_value(InitializeParams::default()).unwrap()).finish());
            s.call(Request::build("initialized").params(serde_json::to_value(InitializedParams {}).unwrap()).finish());
            s.config_answer = real;
            s.settle_late(f[0].parse().unwrap()).join(" ; ")
        }
        "l.open" => {
            let s = st.s.as_mut().unwrap();
            let Ok(uri) = f[0].parse::<Url>() else { return Some("BAD-URI".into()) };
            let p = DidOpenTextDocumentParams { text_document: TextDocumentItem { uri, language_id: "x".into(), version: 1, text: f[1].clone() } };
            s.call(Request::build("textDocument/didOpen").params(serde_json::to_value(p).unwrap()).finish());
            s.settle().join(" ; ")
        }
        "l.change" => {
            let s = st.s.as_mut().unwrap();
            let Ok(uri) = f[0].parse::<Url>() else { return Some("BAD-URI".into()) };
            let p = DidChangeTextDocumentParams {
                text_document: VersionedTextDocumentIdentifier { uri, version: 2 },
                content_changes: vec![TextDocumentContentChangeEvent { range: None, range_length: None, text: f[1].clone() }],
            };
            s.call(Request::build("textDocument/didChange").params(serde_json::to_value(p).unwrap()).finish());
            s.settle().join(" ; ")
        }
        "l.close" => {
            let s = st.s.as_mut().unwrap();
            let Ok(uri) = f[0].parse::<Url>() else { return Some("BAD-URI".into()) };
            let p = DidCloseTextDocumentParams { text_document: TextDocumentIdentifier { uri } };
            s.call(Request::build("textDocument/didClose").params(serde_json::to_value(p).unwrap()).finish());
            s.settle().join(" ; ")
        }
        "l.action" => {
            let s = st.s.as_mut().unwrap();
            let Ok(uri) = f[0].parse::<Url>() else { return Some("BAD-URI".into()) };
            let (line, ch): (u32, u32) = (f[1].parse().unwrap(), f[2].parse().unwrap());
            let p = CodeActionParams {
                text_document: TextDocumentIdentifier { uri },
                range: Range { start: Position { line, character: ch }, end: Position { line, character: ch } },
                context: CodeActionContext { diagnostics: vec![], only: None, trigger_kind: None },
                work_done_progress_params: Default::default(), partial_result_params: Default::default(),
            };
            let id = s.next_id; s.next_id += 1;
            let resp = s.call(Request::build("textDocument/codeAction").id(id).params(serde_json::to_value(p).unwrap()).finish());
            let body = match resp {
                None => "act NORESP".to_string(),
                Some(r) => match r.result() {
                    None => "act ERR".to_string(),
                    Some(v) if v.is_null() => "act none".to_string(),
                    Some(v) => {
                        let acts: Vec<CodeActionOrCommand> = serde_json::from_value(v.clone()).unwrap_or_default();
                        let ss: Vec<String> = acts.iter().map(|a| match a {
                            CodeActionOrCommand::CodeAction(ca) => {
                                let edits: Vec<&TextEdit> = ca.edit.as_ref().and_then(|e| e.changes.as_ref()).map(|c| c.values().flatten().collect()).unwrap_or_default();
                                let e = edits[0];
                                format!("{}|{}|{}|{}|{}", hex(&ca.title), e.range.start.line, e.range.start.character, e.range.end.character, hex(&e.new_text))
                            }
                            _ => "CMD".to_string(),
                        }).collect();
                        format!("act [{}]", ss.join(","))
                    }
                },
            };
            let mut out = vec![body];
            out.extend(s.settle());
            out.join(" ; ")
        }
        // l.reply <reg> <name> <ok|nf|rl|inv> v* [| tag v ...]
        "l.reply" => {
            let s = st.s.as_mut().unwrap();
            let r = rt_of(&f[0]);
            let tx = {
                let mut g = s.gates.lock().unwrap();
                g.iter().position(|(rr, n, _)| *rr == r && *n == f[1]).map(|i| g.remove(i).2)
            };
            match tx {
                None => "noparked".into(),
                Some(tx) => {
                    let res = match f[2].as_str() {
                        "ok" => {
                            let split = f[3..].iter().position(|x| x == "|").map(|p| p + 3).unwrap_or(f.len());
                            let vs = f[3..split].to_vec();
                            let mut tags = HashMap::new();
                            let mut i = split + 1;
                            while i + 1 < f.len() { tags.insert(f[i].clone(), f[i + 1].clone()); i += 2; }
                            Ok(PackageVersions::with_dist_tags(vs, tags))
                        }
                        "nf" => Err(RegistryError::NotFound(f[1].clone())),
                        "rl" => Err(RegistryError::RateLimited { retry_after_secs: None }),
                        _ => Err(RegistryError::InvalidResponse("scripted".into())),
                    };
                    let _ = tx.send(res);
                    s.settle().join(" ; ")
                }
            }
        }
        "l.settle" => st.s.as_mut().unwrap().settle().join(" ; "),
        // l.parse <eco> <text> : what the real parser extracts (input of the server model)
        "l.parse" => {
            let ps = parser_for(&f[0]).parse(&f[1]).unwrap_or_default();
            ps.iter().map(crate::ops_action::pkg_str).collect::<Vec<_>>().join(";")
        }
        "l.dump" => crate::ops_cache::dump(&st.s.as_ref().unwrap()._dir.as_ref().unwrap().path().join("versions.db")),
        "l.stop" => { st.s = None; "ok".into() }
        // srv.probe <xdg_data_home> : start the real server process (run_server over stdio) under that environment, send
        // `initialize` and `shutdown`, report whether it answered: "answered <n>" | "exited rc=<code> <stderr>" | "silent"
        "srv.probe" => {
            use std::io::{Read, Write};
            let exe = std::env::current_exe().unwrap();
            let mut child = std::process::Command::new(exe)
                .arg("runserver")
                .env("XDG_DATA_HOME", &f[0])
                .env("GITHUB_API_BASE_URL", "http://127.0.0.1:9")
                .stdin(std::process::Stdio::piped())
                .stdout(std::process::Stdio::piped())
                .stderr(std::process::Stdio::piped())
                .spawn()
                .expect("spawn runserver");
            let msg = |body: &str| format!("Content-Length: {}\r\n\r\n{}", body.len(), body);
            let init = r#"{"jsonrpc":"2.0","id":1,"method":"initialize","params":{"capabilities":{}}}"#;
            let shutdown = r#"{"jsonrpc":"2.0","id":2,"method":"shutdown"}"#;
            let exit = r#"{"jsonrpc":"2.0","method":"exit"}"#;
            {
                let stdin = child.stdin.as_mut().unwrap();
                let _ = stdin.write_all(msg(init).as_bytes());
                let _ = stdin.write_all(msg(shutdown).as_bytes());
                let _ = stdin.write_all(msg(exit).as_bytes());
                let _ = stdin.flush();
            }
            drop(child.stdin.take());
            let t0 = std::time::Instant::now();
            let status = loop {
                if let Ok(Some(st)) = child.try_wait() { break Some(st); }
                if t0.elapsed().as_secs() > 20 { let _ = child.kill(); break None; }
                std::thread::sleep(std::time::Duration::from_millis(20));
            };
            let mut out = String::new();
            let _ = child.stdout.take().unwrap().read_to_string(&mut out);
            let mut err = String::new();
            let _ = child.stderr.take().unwrap().read_to_string(&mut err);
            let answers = out.matches("\"id\":1").count() + out.matches("\"id\":2").count();
            if answers >= 2 { format!("answered {answers}") }
            else {
                match status {
                    Some(st) => format!("exited rc={} answers={} {}", st.code().unwrap_or(-1), answers, hex(&err.lines().last().unwrap_or("").chars().take(160).collect::<String>())),
                    None => format!("silent answers={answers}"),
                }
            }
        }
        "l.dumpfile" => crate::ops_cache::dump(std::path::Path::new(&f[0])),
        // fs.mkdir <path> | fs.mkfile <path> <content> | fs.rm <path>
        "fs.mkdir" => match std::fs::create_dir_all(&f[0]) { Ok(_) => "ok".into(), Err(e) => format!("E:{:?}", e.kind()) },
        "fs.mkfile" => match std::fs::write(&f[0], f[1].as_bytes()) { Ok(_) => "ok".into(), Err(e) => format!("E:{:?}", e.kind()) },
        "fs.rm" => {
            let p = std::path::Path::new(&f[0]);
            let r = if p.is_dir() { std::fs::remove_dir_all(p) } else { std::fs::remove_file(p) };
            match r { Ok(_) => "ok".into(), Err(e) => format!("E:{:?}", e.kind()) }
        }
        "fs.copy" => match std::fs::copy(&f[0], &f[1]) { Ok(n) => n.to_string(), Err(_) => "-".into() },
        // fs.lock <path> : another connection takes the write lock and keeps it; fs.unlock releases it
        "fs.lock" => {
            let c = rusqlite::Connection::open(&f[0]).expect("open for lock");
            let r = c.execute_batch(if f.len() > 1 && f[1] == "exclusive" { "PRAGMA locking_mode=EXCLUSIVE; BEGIN EXCLUSIVE;" } else { "BEGIN IMMEDIATE;" });
            st.lock = Some(c);
            match r { Ok(_) => "ok".into(), Err(e) => format!("E:{e}") }
        }
        "fs.unlock" => { st.lock = None; "ok".into() }
        "fs.size" => std::fs::metadata(&f[0]).map(|m| m.len().to_string()).unwrap_or_else(|_| "-".into()),
        // fs.damage <path> truncate <n> | overwrite <from> <len> <seed> <zero|ff|rand>
        "fs.damage" => {
            use std::io::{Seek, SeekFrom, Write};
            let path = std::path::Path::new(&f[0]);
            match f[1].as_str() {
                "truncate" => {
                    let n: u64 = f[2].parse().unwrap();
                    if std::fs::metadata(path).map(|m| m.len()).unwrap_or(0) <= n { return Some("skip".into()); }
                    match std::fs::OpenOptions::new().write(true).open(path).and_then(|fh| fh.set_len(n)) { Ok(_) => "ok".into(), Err(e) => format!("E:{:?}", e.kind()) }
                }
                "overwrite" => {
                    let from: u64 = f[2].parse().unwrap();
                    let len: usize = f[3].parse().unwrap();
                    let mut x: u64 = f[4].parse::<u64>().unwrap() | 1;
                    let buf: Vec<u8> = (0..len).map(|_| match f[5].as_str() {
                        "zero" => 0u8, "ff" => 0xffu8,
                        _ => { x ^= x << 13; x ^= x >> 7; x ^= x << 17; (x & 0xff) as u8 }
                    }).collect();
                    let size = std::fs::metadata(path).map(|m| m.len()).unwrap_or(0);
                    if from >= size { return Some("skip".into()); }
                    let buf = &buf[..buf.len().min((size - from) as usize)];
                    match std::fs::OpenOptions::new().write(true).open(path).and_then(|mut fh| { fh.seek(SeekFrom::Start(from))?; fh.write_all(buf) }) { Ok(_) => "ok".into(), Err(e) => format!("E:{:?}", e.kind()) }
                }
                _ => "bad-op".into(),
            }
        }
        // data-directory rule under a controlled environment
        "l.datadir" => {
            if f[0] == "-" { unsafe { std::env::remove_var("XDG_DATA_HOME"); } } else { unsafe { std::env::set_var("XDG_DATA_HOME", &f[0][1..]); } }
            if f[1] != "-" { unsafe { std::env::set_var("HOME", &f[1][1..]); } }
            format!("{} {} {}", hex(&version_lsp::config::data_dir().to_string_lossy()), hex(&version_lsp::config::db_path().to_string_lossy()), hex(&version_lsp::config::log_path().to_string_lossy()))
        }
        _ => return None,
    })
}
